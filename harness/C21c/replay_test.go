package db

import (
	"context"
	"database/sql"
	"database/sql/driver"
	"os"
	"path/filepath"
	"sync"
	"time"

	sqlite3 "github.com/mattn/go-sqlite3"
	command "github.com/rqlite/rqlite/v10/command/proto"
)

// Native side of C21c: a real on-disk WAL database per run, opened by the real Open; the writes
// "in flight" are real transactions through the real (*DB).Execute, performed from inside the
// Write calls of the dump's destination (VerifC21cDump) or - for VerifC21cStmt - from a
// pass-through database/sql driver the READ pool is re-opened with (same DSN, same go-sqlite3
// connection underneath; it calls the harness before handing each query to SQLite).

var c21cDirs = map[*DB]string{}

func init() {
	c21cOpenNative = c21cOpenReal
	c21cCloseNative = func(d *DB) {
		d.Close()
		os.RemoveAll(c21cDirs[d])
		delete(c21cDirs, d)
	}
	c21cCommitNative = c21cCommitReal
	c21cContentNative = func(d *DB) c21cState { return c21cContentOfFile(d.path) }
	c21cLoadNative = c21cLoadReal
	c21cPoolInTxNative = c21cPoolInTxReal
	c21cRunDumpNative = func(d *DB, out *c21cWriter, filter []string) (error, bool) {
		done := make(chan error, 1)
		go func() { done <- d.Dump(out, filter...) }()
		select {
		case err := <-done:
			return err, false
		case <-time.After(5 * time.Second):
			return nil, true
		}
	}
}

func c21cExecAll(d *DB, sqls []string, tx bool) {
	req := &command.Request{Transaction: tx}
	for _, q := range sqls {
		req.Statements = append(req.Statements, &command.Statement{Sql: q})
	}
	res, err := d.Execute(req, false)
	if err != nil {
		panic("verif C21c: native write failed: " + err.Error())
	}
	for _, r := range res {
		if r.GetError() != "" {
			panic("verif C21c: native write failed: " + r.GetError())
		}
	}
}

func c21cOpenReal(w *c21cWorld, build []string, stmtHook bool) *DB {
	dir, err := os.MkdirTemp("", "verif-c21c-")
	if err != nil {
		panic(err)
	}
	d, err := Open(filepath.Join(dir, "db.sqlite"), false, true)
	if err != nil {
		panic(err)
	}
	c21cDirs[d] = dir
	c21cExecAll(d, build, true)
	if stmtHook {
		c21cRegisterOnce.Do(func() { sql.Register("verif-c21c-passthrough", c21cDrv{}) })
		ro, err := sql.Open("verif-c21c-passthrough", d.roDSN)
		if err != nil {
			panic(err)
		}
		d.roDB.Close()
		d.roDB = ro
	}
	return d
}

// one committed write transaction on the write connection of the DB under test
func c21cCommitReal(d *DB, sqls []string) { c21cExecAll(d, sqls, true) }

// the logical content of a database file, read through a handle of its own
func c21cContentOfFile(path string) c21cState {
	DefaultDriver()
	h, err := sql.Open(defaultDriverName, "file:"+path)
	if err != nil {
		panic(err)
	}
	defer h.Close()
	return c21cContentOf(h)
}

func c21cContentOf(h *sql.DB) c21cState {
	var s c21cState
	rs, err := h.Query(`SELECT name, sql FROM sqlite_master WHERE type='table' ORDER BY name`)
	if err != nil {
		panic(err)
	}
	for rs.Next() {
		var t c21cTable
		if err := rs.Scan(&t.name, &t.sql); err != nil {
			panic(err)
		}
		s.tables = append(s.tables, t)
	}
	rs.Close()
	for i := range s.tables {
		rs, err := h.Query(`SELECT id, v FROM "` + s.tables[i].name + `" ORDER BY id`)
		if err != nil {
			panic(err)
		}
		for rs.Next() {
			var r c21cRow
			if err := rs.Scan(&r.id, &r.v); err != nil {
				panic(err)
			}
			s.tables[i].rows = append(s.tables[i].rows, r)
		}
		rs.Close()
	}
	rs, err = h.Query(`SELECT name, sql, tbl_name FROM sqlite_master WHERE type='index' AND sql NOT NULL ORDER BY rowid`)
	if err != nil {
		panic(err)
	}
	for rs.Next() {
		var x c21cIndex
		if err := rs.Scan(&x.name, &x.sql, &x.table); err != nil {
			panic(err)
		}
		s.indexes = append(s.indexes, x)
	}
	rs.Close()
	return s
}

// c21cLoadReal loads the text of a dump into a fresh database the way rqlite loads one (a single
// Execute of the whole text) and reads the result back.
func c21cLoadReal(text string) (c21cState, bool) {
	dir, err := os.MkdirTemp("", "verif-c21c-load-")
	if err != nil {
		panic(err)
	}
	defer os.RemoveAll(dir)
	d, err := Open(filepath.Join(dir, "restored.sqlite"), false, false)
	if err != nil {
		panic(err)
	}
	defer d.Close()
	res, err := d.ExecuteStringStmt(text)
	if err != nil {
		return c21cState{}, false
	}
	for _, r := range res {
		if r.GetError() != "" {
			return c21cState{}, false
		}
	}
	// a text that leaves its transaction open has not loaded anything
	conn, err := d.rwDB.Conn(context.Background())
	if err != nil {
		panic(err)
	}
	open := false
	conn.Raw(func(dc any) error { open = !dc.(*sqlite3.SQLiteConn).AutoCommit(); return nil })
	conn.Close()
	if open {
		return c21cState{}, false
	}
	return c21cContentOfFile(d.path), true
}

// is a connection of the read pool inside a transaction? (the pool holds the one connection the
// dump used; database/sql hands out the idle connection before it opens a new one)
func c21cPoolInTxReal(d *DB) bool {
	ctx := context.Background()
	conn, err := d.roDB.Conn(ctx)
	if err != nil {
		panic(err)
	}
	defer conn.Close()
	inTx := false
	if err := conn.Raw(func(dc any) error {
		switch c := dc.(type) {
		case *sqlite3.SQLiteConn:
			inTx = !c.AutoCommit()
		case *c21cDConn:
			inTx = !c.SQLiteConn.AutoCommit()
		default:
			panic("verif C21c: unknown driver connection")
		}
		return nil
	}); err != nil {
		panic(err)
	}
	return inTx
}

// ---- pass-through driver (VerifC21cStmt only) -------------------------------------------------

var c21cRegisterOnce sync.Once

type c21cDrv struct{}

func (c21cDrv) Open(dsn string) (driver.Conn, error) {
	inner := &sqlite3.SQLiteDriver{ConnectHook: makeConnectHookFn(CnkOnCloseModeDisabled)}
	c, err := inner.Open(dsn)
	if err != nil {
		return nil, err
	}
	return &c21cDConn{c.(*sqlite3.SQLiteConn)}, nil
}

// c21cDConn is the go-sqlite3 connection (all its methods promoted: Prepare, Begin, BeginTx,
// ExecContext, Ping, Close ...) with QueryContext announcing the statement to the harness first.
type c21cDConn struct{ *sqlite3.SQLiteConn }

func (c *c21cDConn) QueryContext(ctx context.Context, query string, args []driver.NamedValue) (driver.Rows, error) {
	failNow, failLater := c21cW.beforeStatement()
	if failNow != nil {
		return nil, failNow
	}
	rows, err := c.SQLiteConn.QueryContext(ctx, query, args)
	if err != nil || failLater == nil {
		return rows, err
	}
	return &c21cDRows{rows, failLater}, nil
}

// c21cDRows: the cursor of a statement that fails when its first row is fetched
type c21cDRows struct {
	driver.Rows
	err error
}

func (r *c21cDRows) Next(dest []driver.Value) error { return r.err }
