package store

// =============================================================================================
// C33: manual recovery keeps all applied data (limited claim; the shared world is in world.go).
//
// The real store.RecoverNode runs against the model log store / snapshot store / transport. The
// oracle is written from the property statement:
//   * the database is rebuilt from the NEWEST snapshot (and only that one is opened) ...
//   * ... plus all command entries of the log after the snapshot's index, each once, ascending -
//     observed as the tags held by the new snapshot RecoverNode writes into the sink (the snapshot's
//     marker first, then one tag per command entry; nothing for entries the snapshot already
//     covers, nothing for barrier / no-op / configuration entries);
//   * exactly one new snapshot is created, at the (index, term) of the last log entry walked (the
//     old snapshot's if the log holds nothing newer), carrying exactly the peers configuration,
//     and it is finalized (sink closed without error, nothing written afterwards);
//   * the log is compacted (whole range) and only after the sink was closed without error; a
//     recovery that fails anywhere before that leaves the log alone and reports the failure;
//   * a peers configuration without any voter is refused and nothing is touched.
// =============================================================================================

func vrCheck(sc *vrScenario, err error) {
	w := sc.w
	if sc.confKind == 3 {
		verifReach("peers-without-a-voter-refused")
		verifAssert("C33-unusable-peers-refused", err != nil)
		verifAssert("C33-refused-recovery-changes-nothing", !w.deleted && len(w.creates) == 0)
		return
	}
	// whatever happens: the log is given up only once the new snapshot is safely in the store
	if w.deleted {
		verifAssert("C33-log-compacted-only-after-snapshot-finalized", w.delAfter)
	}
	if sc.failureBites() {
		verifReach("recovery-failed")
		if w.fail == vrFailSinkClose {
			verifReach("sink-close-failed")
		}
		verifAssert("C33-failure-reported", err != nil)
		if w.fail != vrFailDeleteRange {
			verifAssert("C33-failed-recovery-keeps-the-log", !w.deleted)
		}
		return
	}
	verifAssert("C33-recovery-succeeds", err == nil)

	// restore of the NEWEST snapshot, nothing else
	if sc.hasSnap {
		verifAssert("C33-newest-snapshot-restored", len(w.opened) == 1 && w.opened[0] == "snap-newest")
		if len(w.metas) > 1 {
			verifReach("two-snapshots-in-the-store")
		}
	} else {
		verifAssert("C33-newest-snapshot-restored", len(w.opened) == 0)
	}

	// exactly one new snapshot, finalized, with exactly the peers-file configuration
	verifAssert("C33-one-new-snapshot", len(w.creates) == 1 && w.sink != nil && w.sink.closedOK && !w.sink.lateWrite)
	c := w.creates[0]
	wantIdx, wantTerm := sc.snapIdx, sc.snapTerm
	if sc.n > sc.below {
		verifReach("log-holds-entries-after-the-snapshot")
		wantIdx, wantTerm = w.last(), w.ents[sc.n-1].term
	} else if sc.hasSnap {
		verifReach("log-holds-nothing-newer")
	}
	verifAssert("C33-new-snapshot-index", c.index == wantIdx)
	verifAssert("C33-new-snapshot-term", c.term == wantTerm)
	verifAssert("C33-new-snapshot-has-exactly-the-peers-configuration", vrSameConf(c.conf, sc.conf))
	verifAssert("C33-new-snapshot-version-and-transport", c.version == 1 && c.trans == w.tn)

	// the new snapshot holds the old snapshot's state plus every command entry after it, in order
	got, ok := vrSnapshotTags(w, w.sink.data)
	verifAssert("C33-new-snapshot-is-a-complete-database", ok)
	want := sc.wantTags()
	verifAssert("C33-new-snapshot-holds-snapshot-plus-replayed-entries", len(got) == len(want))
	for i := range want {
		verifAssert("C33-new-snapshot-holds-snapshot-plus-replayed-entries", got[i] == want[i])
	}
	if len(want) >= 3 {
		verifReach("snapshot-and-two-commands-replayed")
	}
	cmds := len(want)
	if sc.hasSnap {
		cmds--
	}
	if sc.n-sc.below > cmds {
		verifReach("non-command-entry-skipped")
	}
	if sc.below > 0 && sc.n > sc.below {
		verifReach("trailing-entries-not-replayed-again")
	}

	// the whole log is compacted away (so no stale configuration entry can interfere)
	verifAssert("C33-log-compacted", w.deleted && w.delMin == w.first && w.delMax == w.last())
	if verifSymbolic() {
		verifAssert("C33-database-functions-used-sensibly", w.badCalls == 0)
	}
}

// failureBites: the chosen failure point is one the recovery has to pass.
func (sc *vrScenario) failureBites() bool {
	switch sc.w.fail {
	case vrFailNone:
		return false
	case vrFailOpenSnap:
		return sc.hasSnap
	case vrFailGetLog:
		return sc.n > sc.below
	}
	return true
}

func vrRun(maxN int, withFailures bool) {
	verifPanicsAreViolations()
	sc := vrSetup(maxN, withFailures, -1)
	defer sc.w.cleanup()
	err := sc.recover()
	vrCheck(sc, err)
}

// VerifC33Recover: every situation, no injected failure.
func VerifC33Recover() {
	n := 2
	if verifTier() == 1 {
		n = 4
	}
	vrRun(n, false)
}

// VerifC33Failures: every situation x every failure point of the environment.
func VerifC33Failures() {
	n := 1
	if verifTier() == 1 {
		n = 3
	}
	vrRun(n, true)
}

// Vacuity twin: claims the new snapshot never holds a replayed entry.
func VerifC33Twin() {
	sc := vrSetup(1, false, 0)
	defer sc.w.cleanup()
	err := sc.recover()
	verifAssume(err == nil)
	got, _ := vrSnapshotTags(sc.w, sc.w.sink.data)
	for _, t := range got {
		verifAssert("twin", t == vrMarker)
	}
}
