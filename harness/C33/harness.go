package store

import (
	"bytes"
	"errors"
	"expvar"
	"io"
	"log"
	"os"
	"path/filepath"
	"time"

	"github.com/hashicorp/raft"
	"github.com/rqlite/rqlite/v10/command"
	"github.com/rqlite/rqlite/v10/command/chunking"
	"github.com/rqlite/rqlite/v10/command/proto"
	sql "github.com/rqlite/rqlite/v10/db"
	"github.com/rqlite/rqlite/v10/snapshot"
)

// =============================================================================================
// Shared world of C33 and C01b (kept identical in both directories): what store.RecoverNode and
// (*Store).fsmApply are given.
//
// Interface models (ordinary Go, run natively and in the engine): raft.LogStore, raft.SnapshotStore
// + raft.SnapshotSink, raft.Transport. Every call is recorded in a trace; any one of the calls can
// be told to fail.
//
// The database is OUTSIDE the claim. It is represented by its contents as a list of "tags":
//   * every log entry at position p carries a payload whose only effect is "append tag 1+p";
//   * the existing snapshot holds the single tag vrMarker.
// In the engine the functions of packages db / snapshot / os that RecoverNode calls are replaced
// (spec "models") by an abstract database with exactly SQLite's WAL discipline at the granularity
// needed here: Restore overwrites the main file; Process appends to the WAL of the open handle;
// Checkpoint moves the WAL into the main file; a snapshot streamer captures the MAIN FILE of the
// path it is given; Persist copies the stream into the sink.
// Natively nothing is replaced: the payloads are real rqlite EXECUTE commands ("INSERT INTO vlog"),
// the snapshot is a real rqlite snapshot stream of a real SQLite file, and the tags are read back
// from the real snapshot that RecoverNode wrote into the sink. Both worlds therefore produce the
// same observation - "the tags, in order, held by the new snapshot" - and the oracles speak about
// that observation and about the interface trace only.
// =============================================================================================

const vrMarker = 200 // the tag held by the pre-existing snapshot

const (
	vrEvList = iota
	vrEvOpenSnap
	vrEvLastIndex
	vrEvGetLog
	vrEvCreate
	vrEvSinkWrite
	vrEvSinkClose
	vrEvSinkCancel
	vrEvFirstIndex
	vrEvDeleteRange
)

// failure points (vrWorld.fail)
const (
	vrFailNone = iota
	vrFailList
	vrFailOpenSnap
	vrFailLastIndex
	vrFailGetLog // the last GetLog the recovery has to make
	vrFailCreate
	vrFailSinkWrite
	vrFailSinkClose
	vrFailFirstIndex
	vrFailDeleteRange
	vrFailN
)

var vrErrInjected = errors.New("verif: injected failure")

type vrEv struct {
	kind int
	a, b uint64
	ok   bool
}

type vrEntry struct {
	typ  raft.LogType
	term uint64
	data []byte
}

type vrCreate struct {
	version   raft.SnapshotVersion
	index     uint64
	term      uint64
	conf      raft.Configuration
	confIndex uint64
	trans     raft.Transport
}

type vrWorld struct {
	dir  string
	fail int
	ev   []vrEv

	// snapshot store: metas newest first (the contract of raft.SnapshotStore.List)
	metas   []*raft.SnapshotMeta
	opened  []string
	snapRC  *vrSnapRC
	creates []vrCreate
	sink    *vrSink

	// log store: ents[i] has index first+i; first is 0 when the log is empty
	first    uint64
	ents     []vrEntry
	failAt   uint64 // index at which GetLog fails (vrFailGetLog)
	getLogs  int
	deleted  bool
	delMin   uint64
	delMax   uint64
	delAfter bool // the sink had been closed without error when DeleteRange was called

	tn raft.Transport

	// engine-only abstract database
	files    map[string][]int // main file contents, by path
	wals     map[string][]int // WAL contents, by path
	handles  map[*sql.SwappableDB]string
	streams  map[*snapshot.SnapshotStreamer]*vrStream
	removed  []string
	badCalls int // calls of the database functions with arguments that make no sense
}

var vrW *vrWorld

func (w *vrWorld) rec(kind int, a, b uint64, ok bool) {
	w.ev = append(w.ev, vrEv{kind: kind, a: a, b: b, ok: ok})
}

func (w *vrWorld) last() uint64 {
	if len(w.ents) == 0 {
		return 0
	}
	return w.first + uint64(len(w.ents)) - 1
}

// ---------------------------------------------------------------------------------------------
// raft.LogStore

type vrLogStore struct{ w *vrWorld }

func (l *vrLogStore) FirstIndex() (uint64, error) {
	w := l.w
	if w.fail == vrFailFirstIndex {
		w.rec(vrEvFirstIndex, 0, 0, false)
		return 0, vrErrInjected
	}
	w.rec(vrEvFirstIndex, w.first, 0, true)
	return w.first, nil
}

func (l *vrLogStore) LastIndex() (uint64, error) {
	w := l.w
	if w.fail == vrFailLastIndex {
		w.rec(vrEvLastIndex, 0, 0, false)
		return 0, vrErrInjected
	}
	w.rec(vrEvLastIndex, w.last(), 0, true)
	return w.last(), nil
}

func (l *vrLogStore) GetLog(index uint64, out *raft.Log) error {
	w := l.w
	w.getLogs++
	if len(w.ents) == 0 || index < w.first || index > w.last() {
		w.rec(vrEvGetLog, index, 0, false)
		return raft.ErrLogNotFound
	}
	if w.fail == vrFailGetLog && index == w.failAt {
		w.rec(vrEvGetLog, index, 0, false)
		return vrErrInjected
	}
	w.rec(vrEvGetLog, index, 0, true)
	e := w.ents[index-w.first]
	out.Index = index
	out.Term = e.term
	out.Type = e.typ
	out.Data = e.data
	return nil
}

func (l *vrLogStore) StoreLog(*raft.Log) error    { panic("verif: StoreLog is not part of recovery") }
func (l *vrLogStore) StoreLogs([]*raft.Log) error { panic("verif: StoreLogs is not part of recovery") }

func (l *vrLogStore) DeleteRange(min, max uint64) error {
	w := l.w
	w.deleted = true
	w.delMin, w.delMax = min, max
	w.delAfter = w.sink != nil && w.sink.closedOK
	if w.fail == vrFailDeleteRange {
		w.rec(vrEvDeleteRange, min, max, false)
		return vrErrInjected
	}
	w.rec(vrEvDeleteRange, min, max, true)
	return nil
}

// ---------------------------------------------------------------------------------------------
// raft.SnapshotStore, raft.SnapshotSink

type vrSnapStore struct{ w *vrWorld }

func (s *vrSnapStore) List() ([]*raft.SnapshotMeta, error) {
	w := s.w
	if w.fail == vrFailList {
		w.rec(vrEvList, 0, 0, false)
		return nil, vrErrInjected
	}
	w.rec(vrEvList, uint64(len(w.metas)), 0, true)
	return w.metas, nil
}

func (s *vrSnapStore) Open(id string) (*raft.SnapshotMeta, io.ReadCloser, error) {
	w := s.w
	w.opened = append(w.opened, id)
	if w.fail == vrFailOpenSnap {
		w.rec(vrEvOpenSnap, 0, 0, false)
		return nil, nil, vrErrInjected
	}
	for i, m := range w.metas {
		if m.ID == id {
			w.rec(vrEvOpenSnap, uint64(i), 0, true)
			rc := &vrSnapRC{w: w, which: i}
			if i == 0 {
				rc.tags = []int{vrMarker}
			} else {
				rc.tags = []int{vrMarker + 1} // an older snapshot: a different state
			}
			if !verifSymbolic() {
				rc.r = bytes.NewReader(vrNativeSnapshot(w.dir, rc.tags))
			}
			w.snapRC = rc
			return m, rc, nil
		}
	}
	w.rec(vrEvOpenSnap, 0, 0, false)
	return nil, nil, errors.New("verif: no such snapshot")
}

func (s *vrSnapStore) Create(version raft.SnapshotVersion, index, term uint64, configuration raft.Configuration,
	configurationIndex uint64, trans raft.Transport) (raft.SnapshotSink, error) {
	w := s.w
	w.creates = append(w.creates, vrCreate{version, index, term, configuration, configurationIndex, trans})
	if w.fail == vrFailCreate {
		w.rec(vrEvCreate, index, term, false)
		return nil, vrErrInjected
	}
	w.rec(vrEvCreate, index, term, true)
	w.sink = &vrSink{w: w}
	return w.sink, nil
}

// vrSnapRC is the stream of an existing snapshot. Natively it yields a real snapshot stream; in the
// engine only its identity and the tags it stands for matter (snapshot.Restore is a model).
type vrSnapRC struct {
	w      *vrWorld
	which  int
	tags   []int
	r      *bytes.Reader
	closed bool
}

func (r *vrSnapRC) Read(p []byte) (int, error) {
	if r.r == nil {
		return 0, io.EOF
	}
	return r.r.Read(p)
}
func (r *vrSnapRC) Close() error { r.closed = true; return nil }

type vrSink struct {
	w         *vrWorld
	data      []byte
	closes    int
	closedOK  bool
	cancelled bool
	lateWrite bool
}

func (s *vrSink) Write(p []byte) (int, error) {
	if s.closes > 0 || s.cancelled {
		s.lateWrite = true
	}
	if s.w.fail == vrFailSinkWrite {
		s.w.rec(vrEvSinkWrite, uint64(len(p)), 0, false)
		return 0, vrErrInjected
	}
	s.w.rec(vrEvSinkWrite, uint64(len(p)), 0, true)
	s.data = append(s.data, p...)
	return len(p), nil
}

func (s *vrSink) Close() error {
	s.closes++
	if s.w.fail == vrFailSinkClose {
		s.w.rec(vrEvSinkClose, 0, 0, false)
		return vrErrInjected
	}
	s.w.rec(vrEvSinkClose, 0, 0, true)
	if !s.cancelled {
		s.closedOK = true
	}
	return nil
}

func (s *vrSink) ID() string { return "verif-new-snapshot" }

func (s *vrSink) Cancel() error {
	// raft's sinks tolerate Cancel after Close (RecoverNode defers it unconditionally)
	s.w.rec(vrEvSinkCancel, 0, 0, true)
	if s.closes == 0 {
		s.cancelled = true
	}
	return nil
}

// vrTransport is never used by recovery beyond being handed to SnapshotStore.Create.
type vrTransport struct{ raft.Transport }

// ---------------------------------------------------------------------------------------------
// payloads

// vrData is the payload of the log entry at position p: "append tag 1+p".
func vrData(p int) []byte {
	if verifSymbolic() {
		return []byte{0xC7, byte(1 + p)}
	}
	return vrNativeCommand(1 + p)
}

// vrTagOf decodes an engine payload (-1: not one of ours).
func vrTagOf(data []byte) int {
	if len(data) != 2 || data[0] != 0xC7 {
		return -1
	}
	return int(data[1])
}

const vrCreateTable = "CREATE TABLE IF NOT EXISTS vlog (id INTEGER PRIMARY KEY AUTOINCREMENT, tag INTEGER)"

func vrItoa(n int) string {
	if n == 0 {
		return "0"
	}
	var b []byte
	for n > 0 {
		b = append([]byte{byte('0' + n%10)}, b...)
		n /= 10
	}
	return string(b)
}

func vrNativeCommand(tag int) []byte {
	er := &proto.ExecuteRequest{Request: &proto.Request{Statements: []*proto.Statement{
		{Sql: vrCreateTable},
		{Sql: "INSERT INTO vlog(tag) VALUES(" + vrItoa(tag) + ")"},
	}}}
	b, compressed, err := command.NewRequestMarshaler().Marshal(er)
	if err != nil {
		panic(err)
	}
	out, err := command.Marshal(&proto.Command{Type: proto.Command_COMMAND_TYPE_EXECUTE, SubCommand: b, Compressed: compressed})
	if err != nil {
		panic(err)
	}
	return out
}

// vrNativeSnapshot builds a real rqlite snapshot stream of a SQLite file holding the tags.
func vrNativeSnapshot(dir string, tags []int) []byte {
	path := filepath.Join(dir, "verif-old-snapshot.db")
	os.Remove(path)
	db, err := sql.Open(path, false, false)
	if err != nil {
		panic(err)
	}
	stmts := []*proto.Statement{{Sql: vrCreateTable}}
	for _, t := range tags {
		stmts = append(stmts, &proto.Statement{Sql: "INSERT INTO vlog(tag) VALUES(" + vrItoa(t) + ")"})
	}
	rs, err := db.Execute(&proto.Request{Statements: stmts}, false)
	if err != nil {
		panic(err)
	}
	for _, r := range rs {
		if r.GetError() != "" {
			panic("verif: cannot fill the native snapshot database: " + r.GetError())
		}
	}
	if err := db.Close(); err != nil {
		panic(err)
	}
	st, err := snapshot.NewSnapshotStreamer(path)
	if err != nil {
		panic(err)
	}
	if err := st.Open(); err != nil {
		panic(err)
	}
	b, err := io.ReadAll(st)
	if err != nil {
		panic(err)
	}
	st.Close()
	os.Remove(path)
	return b
}

// vrSnapshotTags: the observation. The tags, in order, held by a snapshot stream (ok=false: the
// bytes are not a complete snapshot of a database).
func vrSnapshotTags(w *vrWorld, b []byte) (tags []int, ok bool) {
	if verifSymbolic() {
		if len(b) < 2 || b[0] != 0x5A || int(b[1]) != len(b)-2 {
			return nil, false
		}
		for _, t := range b[2:] {
			tags = append(tags, int(t))
		}
		return tags, true
	}
	path := filepath.Join(w.dir, "verif-new-snapshot.db")
	os.Remove(path)
	defer os.Remove(path)
	if _, err := snapshot.Restore(bytes.NewReader(b), path); err != nil {
		return nil, false
	}
	db, err := sql.Open(path, false, false)
	if err != nil {
		return nil, false
	}
	defer db.Close()
	rows, err := db.QueryStringStmt("SELECT tag FROM vlog ORDER BY id")
	if err != nil || len(rows) != 1 {
		return nil, false
	}
	if rows[0].GetError() != "" {
		return nil, true // no table: nothing was ever applied
	}
	for _, v := range rows[0].Values {
		tags = append(tags, int(v.Parameters[0].GetI()))
	}
	return tags, true
}

// ---------------------------------------------------------------------------------------------
// engine-only abstract database (spec.json "models"); never called natively

type vrStream struct {
	payload []byte
	off     int
	opened  bool
}

func vrEncodeTags(tags []int) []byte {
	b := []byte{0x5A, byte(len(tags))}
	for _, t := range tags {
		b = append(b, byte(t))
	}
	return b
}

func vrOsRemove(name string) error {
	w := vrW
	w.removed = append(w.removed, name)
	delete(w.files, name)
	delete(w.wals, name)
	return nil
}

func vrRestore(r io.Reader, dstPath string) (int64, error) {
	w := vrW
	rc, ok := r.(*vrSnapRC)
	if !ok || rc.closed {
		w.badCalls++
		return 0, errors.New("verif: not a snapshot stream")
	}
	w.files[dstPath] = append([]int{}, rc.tags...)
	delete(w.wals, dstPath)
	return 1, nil
}

func vrDefaultDriver() *sql.Driver { return nil }

func vrOpenSwappable(dbPath string, drv *sql.Driver, fkEnabled, wal bool, maxROConns int) (*sql.SwappableDB, error) {
	w := vrW
	if !wal {
		w.badCalls++ // rqlite databases are WAL-mode databases
	}
	if _, ok := w.files[dbPath]; !ok {
		w.files[dbPath] = []int{}
	}
	h := new(sql.SwappableDB)
	w.handles[h] = dbPath
	return h, nil
}

func vrDBClose(db *sql.SwappableDB) error {
	w := vrW
	if _, ok := w.handles[db]; !ok {
		w.badCalls++
	}
	delete(w.handles, db)
	return nil
}

func vrDBCheckpoint(db *sql.SwappableDB, wr io.Writer, timeout time.Duration) (*sql.CheckpointManagerMeta, int64, error) {
	w := vrW
	path, ok := w.handles[db]
	if !ok {
		w.badCalls++
		return nil, 0, errors.New("verif: checkpoint of a database that is not open")
	}
	w.files[path] = append(w.files[path], w.wals[path]...)
	delete(w.wals, path)
	return nil, 0, nil
}

func vrNewDechunkerManager(dir string) (*chunking.DechunkerManager, error) {
	return new(chunking.DechunkerManager), nil
}

// vrProcess: what (*CommandProcessor).Process does with one of the harness payloads.
func vrProcess(c *CommandProcessor, data []byte, db *sql.SwappableDB) (*proto.Command, bool, any) {
	w := vrW
	path, ok := w.handles[db]
	tag := vrTagOf(data)
	if !ok || tag < 0 {
		w.badCalls++
		panic("verif: Process called with something that is neither an open database nor a log payload")
	}
	w.wals[path] = append(w.wals[path], tag)
	return &proto.Command{Type: proto.Command_COMMAND_TYPE_EXECUTE}, true, &fsmExecuteQueryResponse{}
}

func vrNewSnapshotStreamer(dbPath string, walPaths ...string) (*snapshot.SnapshotStreamer, error) {
	w := vrW
	tags, ok := w.files[dbPath]
	if !ok {
		return nil, errors.New("verif: no such database file")
	}
	if len(walPaths) != 0 {
		w.badCalls++
	}
	st := new(snapshot.SnapshotStreamer)
	w.streams[st] = &vrStream{payload: vrEncodeTags(tags)}
	return st, nil
}

func vrStreamerOpen(st *snapshot.SnapshotStreamer) error {
	vrW.streams[st].opened = true
	return nil
}

func vrStreamerRead(st *snapshot.SnapshotStreamer, p []byte) (int, error) {
	s := vrW.streams[st]
	if !s.opened {
		vrW.badCalls++
		return 0, errors.New("verif: streamer is not open")
	}
	if s.off >= len(s.payload) {
		return 0, io.EOF
	}
	n := copy(p, s.payload[s.off:])
	s.off += n
	return n, nil
}

func vrStreamerClose(st *snapshot.SnapshotStreamer) error {
	vrW.streams[st].opened = false
	return nil
}

// ---------------------------------------------------------------------------------------------
// building a world

func vrNewWorld() *vrWorld {
	w := &vrWorld{tn: &vrTransport{}}
	vrW = w
	if verifSymbolic() {
		w.dir = "/verif-recover"
		w.files = map[string][]int{}
		w.wals = map[string][]int{}
		w.handles = map[*sql.SwappableDB]string{}
		w.streams = map[*snapshot.SnapshotStreamer]*vrStream{}
		return w
	}
	dir, err := os.MkdirTemp("", "verif-recover-")
	if err != nil {
		panic(err)
	}
	w.dir = dir
	return w
}

func (w *vrWorld) cleanup() {
	if !verifSymbolic() {
		os.RemoveAll(w.dir)
	}
}

func vrLogger() *log.Logger { return log.New(io.Discard, "", 0) }

// vrExpvarGet stands in for (*expvar.Map).Get in the engine (statistics only).
var vrStatInt = new(expvar.Int)

func vrExpvarGet(m *expvar.Map, key string) expvar.Var { return vrStatInt }

// vrConf: the peers-file configurations. 0..2 are usable, 3 has no voter.
func vrConf(k int) raft.Configuration {
	switch k {
	case 0:
		return raft.Configuration{Servers: []raft.Server{{Suffrage: raft.Voter, ID: "n1", Address: "h1:4002"}}}
	case 1:
		return raft.Configuration{Servers: []raft.Server{
			{Suffrage: raft.Nonvoter, ID: "n2", Address: "h2:4002"},
			{Suffrage: raft.Voter, ID: "n1", Address: "h1:4002"}}}
	case 2:
		return raft.Configuration{Servers: []raft.Server{
			{Suffrage: raft.Voter, ID: "n3", Address: "h3:4002"},
			{Suffrage: raft.Voter, ID: "n1", Address: "h1:4002"},
			{Suffrage: raft.Voter, ID: "n2", Address: "h2:4002"}}}
	}
	return raft.Configuration{Servers: []raft.Server{{Suffrage: raft.Nonvoter, ID: "n1", Address: "h1:4002"}}}
}

func vrSameConf(a, b raft.Configuration) bool {
	if len(a.Servers) != len(b.Servers) {
		return false
	}
	for i := range a.Servers {
		if a.Servers[i] != b.Servers[i] {
			return false
		}
	}
	return true
}

// =============================================================================================
// C33: manual recovery keeps all applied data.
// =============================================================================================

type vrScenario struct {
	w        *vrWorld
	hasSnap  bool
	snapIdx  uint64
	snapTerm uint64
	n        int // log entries
	below    int // of which at or below the snapshot index (already part of the snapshot)
	confKind int
	conf     raft.Configuration
}

// vrSetup chooses the situation the node was left in.
func vrSetup(maxN int, withFailures bool) *vrScenario {
	w := vrNewWorld()
	sc := &vrScenario{w: w}
	sc.n = verifChoice("entries", maxN+1)
	sc.hasSnap = verifChoice("snapshot", 2) == 1
	if sc.hasSnap {
		sc.snapIdx = verifU64("snapIndex")
		sc.snapTerm = verifU64("snapTerm")
		verifAssume(sc.snapIdx >= 1)
		verifAssume(sc.snapIdx <= 1<<60)
		// trailing logs: some of the entries may still be in the log although the snapshot covers them
		sc.below = verifChoice("entriesCoveredBySnapshot", sc.n+1)
		verifAssume(sc.snapIdx >= uint64(sc.below))
		w.metas = append(w.metas, &raft.SnapshotMeta{ID: "snap-newest", Index: sc.snapIdx, Term: sc.snapTerm, Version: 1})
		if verifChoice("olderSnapshotToo", 2) == 1 {
			verifAssume(sc.snapIdx >= 2)
			w.metas = append(w.metas, &raft.SnapshotMeta{ID: "snap-older", Index: sc.snapIdx - 1, Term: sc.snapTerm, Version: 1})
		}
	}
	if sc.n > 0 {
		w.first = sc.snapIdx + 1 - uint64(sc.below)
	}
	for p := 0; p < sc.n; p++ {
		t := verifU8(verifName("type", p))
		verifAssume(t <= uint8(raft.LogConfiguration)) // LogCommand, LogNoop, LogAddPeerDeprecated, LogRemovePeerDeprecated, LogBarrier, LogConfiguration
		w.ents = append(w.ents, vrEntry{typ: raft.LogType(t), term: verifU64(verifName("term", p)), data: vrData(p)})
	}
	sc.confKind = verifChoice("peers", 4)
	sc.conf = vrConf(sc.confKind)
	if withFailures {
		w.fail = verifChoice("failurePoint", vrFailN)
		w.failAt = w.last()
	}
	return sc
}

// expectation, from the statement: "rebuilds its database from the latest snapshot plus all log
// entries after it"
func (sc *vrScenario) wantTags() []int {
	var want []int
	if sc.hasSnap {
		want = append(want, vrMarker)
	}
	for p := sc.below; p < sc.n; p++ {
		if sc.w.ents[p].typ == raft.LogCommand {
			want = append(want, 1+p)
		}
	}
	return want
}

func (sc *vrScenario) recover() error {
	w := sc.w
	return RecoverNode(w.dir, nil, vrLogger(), &vrLogStore{w}, nil, &vrSnapStore{w}, w.tn, sc.conf)
}

// failureBites: the chosen failure point is one the recovery has to pass.
func (sc *vrScenario) failureBites() bool {
	switch sc.w.fail {
	case vrFailNone:
		return false
	case vrFailOpenSnap:
		return sc.hasSnap
	case vrFailGetLog:
		return sc.n > sc.below
	}
	return true
}

func vrCheck(sc *vrScenario, err error) {
	w := sc.w
	if sc.confKind == 3 {
		verifReach("peers-without-a-voter-refused")
		verifAssert("C33-unusable-peers-refused", err != nil)
		verifAssert("C33-refused-recovery-changes-nothing", !w.deleted && len(w.creates) == 0)
		return
	}
	// whatever happens: the log is given up only once the new snapshot is safely in the store
	if w.deleted {
		verifAssert("C33-log-compacted-only-after-snapshot-finalized", w.delAfter)
	}
	if sc.failureBites() {
		verifReach("recovery-failed")
		verifAssert("C33-failure-reported", err != nil)
		if w.fail != vrFailDeleteRange {
			verifAssert("C33-failed-recovery-keeps-the-log", !w.deleted)
		}
		return
	}
	verifAssert("C33-recovery-succeeds", err == nil)

	// restore of the NEWEST snapshot, nothing else
	if sc.hasSnap {
		verifAssert("C33-newest-snapshot-restored", len(w.opened) == 1 && w.opened[0] == "snap-newest")
	} else {
		verifAssert("C33-newest-snapshot-restored", len(w.opened) == 0)
	}

	// exactly one new snapshot, finalized, with exactly the peers-file configuration
	verifAssert("C33-one-new-snapshot", len(w.creates) == 1 && w.sink != nil && w.sink.closedOK && !w.sink.lateWrite)
	c := w.creates[0]
	wantIdx, wantTerm := sc.snapIdx, sc.snapTerm
	if sc.n > sc.below {
		verifReach("log-holds-entries-after-the-snapshot")
		wantIdx, wantTerm = w.last(), w.ents[sc.n-1].term
	} else if sc.hasSnap {
		verifReach("log-holds-nothing-newer")
	}
	verifAssert("C33-new-snapshot-index", c.index == wantIdx)
	verifAssert("C33-new-snapshot-term", c.term == wantTerm)
	verifAssert("C33-new-snapshot-has-exactly-the-peers-configuration", vrSameConf(c.conf, sc.conf))
	verifAssert("C33-new-snapshot-version-and-transport", c.version == 1 && c.trans == w.tn)

	// the new snapshot holds the old snapshot's state plus every command entry after it, in order
	got, ok := vrSnapshotTags(w, w.sink.data)
	verifAssert("C33-new-snapshot-is-a-complete-database", ok)
	want := sc.wantTags()
	verifAssert("C33-new-snapshot-holds-snapshot-plus-replayed-entries", len(got) == len(want))
	for i := range want {
		verifAssert("C33-new-snapshot-holds-snapshot-plus-replayed-entries", got[i] == want[i])
	}
	if len(want) >= 3 {
		verifReach("snapshot-and-two-commands-replayed")
	}
	if sc.below > 0 && sc.n > sc.below {
		verifReach("trailing-entries-not-replayed-again")
	}

	// the whole log is compacted away (so no stale configuration entry can interfere)
	verifAssert("C33-log-compacted", w.deleted && w.delMin == w.first && w.delMax == w.last())
	if verifSymbolic() {
		verifAssert("C33-database-functions-used-sensibly", w.badCalls == 0)
	}
}

func vrRun(maxN int, withFailures bool) {
	verifPanicsAreViolations()
	sc := vrSetup(maxN, withFailures)
	defer sc.w.cleanup()
	err := sc.recover()
	vrCheck(sc, err)
}

// VerifC33Recover: every situation, no injected failure.
func VerifC33Recover() {
	n := 3
	if verifTier() == 1 {
		n = 4
	}
	vrRun(n, false)
}

// VerifC33Failures: every situation x every failure point of the environment.
func VerifC33Failures() {
	n := 1
	if verifTier() == 1 {
		n = 3
	}
	vrRun(n, true)
}

// Vacuity twin: claims the new snapshot never holds a replayed entry.
func VerifC33Twin() {
	sc := vrSetup(1, false)
	defer sc.w.cleanup()
	err := sc.recover()
	verifAssume(err == nil)
	verifAssume(sc.confKind != 3)
	got, _ := vrSnapshotTags(sc.w, sc.w.sink.data)
	for _, t := range got {
		verifAssert("twin", t == vrMarker)
	}
}
