package store

import (
	"bytes"
	"errors"
	"expvar"
	"io"
	"log"
	"os"
	"path/filepath"
	"time"

	"github.com/hashicorp/raft"
	"github.com/rqlite/rqlite/v10/command"
	"github.com/rqlite/rqlite/v10/command/chunking"
	"github.com/rqlite/rqlite/v10/command/proto"
	sql "github.com/rqlite/rqlite/v10/db"
	"github.com/rqlite/rqlite/v10/internal/rsync"
	"github.com/rqlite/rqlite/v10/snapshot"
)

// =============================================================================================
// Shared world of C33 and C01b (this file is kept identical in both directories): what
// store.RecoverNode and (*Store).fsmApply are given.
//
// Interface models (ordinary Go, run natively and in the engine): raft.LogStore, raft.SnapshotStore
// + raft.SnapshotSink, raft.Transport. Every call is recorded; any one of the calls can be told to
// fail.
//
// The database is OUTSIDE the claim. It is represented by its contents as a list of "tags":
//   * the log entry at position p carries a payload whose only effect is "append tag 1+p";
//   * the existing snapshot holds the single tag vrMarker.
// In the engine the functions of packages db / snapshot / os that the code under test calls are
// replaced (spec "models") by an abstract database with SQLite's WAL discipline at the granularity
// needed here: Restore overwrites the main file; Process appends to the WAL of the open handle;
// Checkpoint moves the WAL into the main file; a snapshot streamer captures the MAIN FILE of the
// path it is given; the real StateReader.Persist copies the stream into the sink.
// Natively nothing is replaced: the payloads are real rqlite EXECUTE commands ("INSERT INTO vlog"),
// the snapshot is a real rqlite snapshot stream of a real SQLite file, and the tags are read back
// from the real snapshot that RecoverNode wrote into the sink (or from the live SQLite database).
// Both worlds therefore produce the same observation - "the tags, in order, held by the new
// snapshot / the live database" - and the oracles speak about that observation and about the
// interface records only.
// =============================================================================================

const vrMarker = 200 // the tag held by the pre-existing snapshot

// failure points (vrWorld.fail)
const (
	vrFailNone = iota
	vrFailList
	vrFailOpenSnap
	vrFailLastIndex
	vrFailGetLog // the last GetLog the recovery has to make
	vrFailCreate
	vrFailSinkWrite
	vrFailSinkClose
	vrFailFirstIndex
	vrFailDeleteRange
	vrFailN
)

var vrErrInjected = errors.New("verif: injected failure")

type vrEntry struct {
	typ  raft.LogType
	term uint64
	data []byte
}

type vrCreate struct {
	version   raft.SnapshotVersion
	index     uint64
	term      uint64
	conf      raft.Configuration
	confIndex uint64
	trans     raft.Transport
}

type vrWorld struct {
	dir  string
	fail int

	// snapshot store: metas newest first (the contract of raft.SnapshotStore.List)
	metas   []*raft.SnapshotMeta
	opened  []string
	creates []vrCreate
	sink    *vrSink

	// log store: ents[i] has index first+i; first is 0 when the log is empty
	first    uint64
	ents     []vrEntry
	failAt   uint64 // index at which GetLog fails (vrFailGetLog)
	deleted  bool
	delMin   uint64
	delMax   uint64
	delAfter bool // the sink had been closed without error when DeleteRange was called

	tn raft.Transport

	// engine-only abstract database
	files    map[string][]int // main file contents, by path
	wals     map[string][]int // WAL contents, by path
	handles  map[*sql.SwappableDB]string
	streams  map[*snapshot.SnapshotStreamer]*vrStream
	badCalls int // calls of the database functions with arguments that make no sense
}

var vrW *vrWorld

func (w *vrWorld) last() uint64 {
	if len(w.ents) == 0 {
		return 0
	}
	return w.first + uint64(len(w.ents)) - 1
}

// ---------------------------------------------------------------------------------------------
// raft.LogStore

type vrLogStore struct{ w *vrWorld }

func (l *vrLogStore) FirstIndex() (uint64, error) {
	w := l.w
	if w.fail == vrFailFirstIndex {
		return 0, vrErrInjected
	}
	return w.first, nil
}

func (l *vrLogStore) LastIndex() (uint64, error) {
	w := l.w
	if w.fail == vrFailLastIndex {
		return 0, vrErrInjected
	}
	return w.last(), nil
}

func (l *vrLogStore) GetLog(index uint64, out *raft.Log) error {
	w := l.w
	if len(w.ents) == 0 || index < w.first || index > w.last() {
		return raft.ErrLogNotFound
	}
	if w.fail == vrFailGetLog && index == w.failAt {
		return vrErrInjected
	}
	e := w.ents[index-w.first]
	out.Index = index
	out.Term = e.term
	out.Type = e.typ
	out.Data = e.data
	return nil
}

func (l *vrLogStore) StoreLog(*raft.Log) error    { panic("verif: StoreLog is not part of recovery") }
func (l *vrLogStore) StoreLogs([]*raft.Log) error { panic("verif: StoreLogs is not part of recovery") }

func (l *vrLogStore) DeleteRange(min, max uint64) error {
	w := l.w
	w.deleted = true
	w.delMin, w.delMax = min, max
	w.delAfter = w.sink != nil && w.sink.closedOK
	if w.fail == vrFailDeleteRange {
		return vrErrInjected
	}
	return nil
}

// ---------------------------------------------------------------------------------------------
// raft.SnapshotStore, raft.SnapshotSink

type vrSnapStore struct{ w *vrWorld }

func (s *vrSnapStore) List() ([]*raft.SnapshotMeta, error) {
	w := s.w
	if w.fail == vrFailList {
		return nil, vrErrInjected
	}
	return w.metas, nil
}

func (s *vrSnapStore) Open(id string) (*raft.SnapshotMeta, io.ReadCloser, error) {
	w := s.w
	w.opened = append(w.opened, id)
	if w.fail == vrFailOpenSnap {
		return nil, nil, vrErrInjected
	}
	for i, m := range w.metas {
		if m.ID == id {
			return m, w.snapshotStream(i), nil
		}
	}
	return nil, nil, errors.New("verif: no such snapshot")
}

// snapshotStream: the stream of the i-th snapshot (0 = newest).
func (w *vrWorld) snapshotStream(i int) *vrSnapRC {
	rc := &vrSnapRC{tags: []int{vrMarker + i}} // an older snapshot is a different state
	if !verifSymbolic() {
		rc.r = bytes.NewReader(vrNativeSnapshot(w.dir, rc.tags))
	}
	return rc
}

func (s *vrSnapStore) Create(version raft.SnapshotVersion, index, term uint64, configuration raft.Configuration,
	configurationIndex uint64, trans raft.Transport) (raft.SnapshotSink, error) {
	w := s.w
	w.creates = append(w.creates, vrCreate{version, index, term, configuration, configurationIndex, trans})
	if w.fail == vrFailCreate {
		return nil, vrErrInjected
	}
	w.sink = &vrSink{w: w}
	return w.sink, nil
}

// vrSnapRC is the stream of an existing snapshot. Natively it yields a real snapshot stream; in the
// engine only the tags it stands for matter (snapshot.Restore is a model).
type vrSnapRC struct {
	tags   []int
	r      *bytes.Reader
	closed bool
}

func (r *vrSnapRC) Read(p []byte) (int, error) {
	if r.r == nil {
		return 0, io.EOF
	}
	return r.r.Read(p)
}
func (r *vrSnapRC) Close() error { r.closed = true; return nil }

type vrSink struct {
	w         *vrWorld
	data      []byte
	closes    int
	closedOK  bool
	cancelled bool
	lateWrite bool
}

func (s *vrSink) Write(p []byte) (int, error) {
	if s.closes > 0 || s.cancelled {
		s.lateWrite = true
	}
	if s.w.fail == vrFailSinkWrite {
		return 0, vrErrInjected
	}
	s.data = append(s.data, p...)
	return len(p), nil
}

func (s *vrSink) Close() error {
	s.closes++
	if s.w.fail == vrFailSinkClose {
		return vrErrInjected
	}
	if !s.cancelled {
		s.closedOK = true
	}
	return nil
}

func (s *vrSink) ID() string { return "verif-new-snapshot" }

// Cancel: raft's sinks tolerate Cancel after Close (RecoverNode defers it unconditionally).
func (s *vrSink) Cancel() error {
	if s.closes == 0 {
		s.cancelled = true
	}
	return nil
}

// vrTransport is never used by recovery beyond being handed to SnapshotStore.Create.
type vrTransport struct{ raft.Transport }

// ---------------------------------------------------------------------------------------------
// payloads and observations

// vrData is the payload of the log entry at position p: "append tag 1+p".
func vrData(p int) []byte {
	if verifSymbolic() {
		return []byte{0xC7, byte(1 + p)}
	}
	return vrNativeCommand(1 + p)
}

// vrTagOf decodes an engine payload (-1: not one of ours).
func vrTagOf(data []byte) int {
	if len(data) != 2 || data[0] != 0xC7 {
		return -1
	}
	return int(data[1])
}

const vrCreateTable = "CREATE TABLE IF NOT EXISTS vlog (id INTEGER PRIMARY KEY AUTOINCREMENT, tag INTEGER)"

func vrItoa(n int) string {
	if n == 0 {
		return "0"
	}
	var b []byte
	for n > 0 {
		b = append([]byte{byte('0' + n%10)}, b...)
		n /= 10
	}
	return string(b)
}

func vrNativeCommand(tag int) []byte {
	er := &proto.ExecuteRequest{Request: &proto.Request{Statements: []*proto.Statement{
		{Sql: vrCreateTable},
		{Sql: "INSERT INTO vlog(tag) VALUES(" + vrItoa(tag) + ")"},
	}}}
	b, compressed, err := command.NewRequestMarshaler().Marshal(er)
	if err != nil {
		panic(err)
	}
	out, err := command.Marshal(&proto.Command{Type: proto.Command_COMMAND_TYPE_EXECUTE, SubCommand: b, Compressed: compressed})
	if err != nil {
		panic(err)
	}
	return out
}

// vrNativeSnapshot builds a real rqlite snapshot stream of a SQLite file holding the tags.
func vrNativeSnapshot(dir string, tags []int) []byte {
	path := filepath.Join(dir, "verif-old-snapshot.db")
	os.Remove(path)
	db, err := sql.Open(path, false, false)
	if err != nil {
		panic(err)
	}
	stmts := []*proto.Statement{{Sql: vrCreateTable}}
	for _, t := range tags {
		stmts = append(stmts, &proto.Statement{Sql: "INSERT INTO vlog(tag) VALUES(" + vrItoa(t) + ")"})
	}
	rs, err := db.Execute(&proto.Request{Statements: stmts}, false)
	if err != nil {
		panic(err)
	}
	for _, r := range rs {
		if r.GetError() != "" {
			panic("verif: cannot fill the native snapshot database: " + r.GetError())
		}
	}
	if err := db.Close(); err != nil {
		panic(err)
	}
	st, err := snapshot.NewSnapshotStreamer(path)
	if err != nil {
		panic(err)
	}
	if err := st.Open(); err != nil {
		panic(err)
	}
	b, err := io.ReadAll(st)
	if err != nil {
		panic(err)
	}
	st.Close()
	os.Remove(path)
	return b
}

func vrNativeQueryTags(q func(string) ([]*proto.QueryRows, error)) (tags []int, ok bool) {
	rows, err := q("SELECT tag FROM vlog ORDER BY id")
	if err != nil || len(rows) != 1 {
		return nil, false
	}
	if rows[0].GetError() != "" {
		return nil, true // no table: nothing was ever applied
	}
	for _, v := range rows[0].Values {
		tags = append(tags, int(v.Parameters[0].GetI()))
	}
	return tags, true
}

// vrSnapshotTags: the observation. The tags, in order, held by a snapshot stream (ok=false: the
// bytes are not a complete snapshot of a database).
func vrSnapshotTags(w *vrWorld, b []byte) (tags []int, ok bool) {
	if verifSymbolic() {
		if len(b) < 2 || b[0] != 0x5A || int(b[1]) != len(b)-2 {
			return nil, false
		}
		for _, t := range b[2:] {
			tags = append(tags, int(t))
		}
		return tags, true
	}
	path := filepath.Join(w.dir, "verif-new-snapshot.db")
	os.Remove(path)
	defer os.Remove(path)
	if _, err := snapshot.Restore(bytes.NewReader(b), path); err != nil {
		return nil, false
	}
	db, err := sql.Open(path, false, false)
	if err != nil {
		return nil, false
	}
	defer db.Close()
	return vrNativeQueryTags(db.QueryStringStmt)
}

// vrLiveTags: the observation on a live node. The tags, in order, a reader of the open database sees.
func vrLiveTags(w *vrWorld, db *sql.SwappableDB) (tags []int, ok bool) {
	if verifSymbolic() {
		path, ok := w.handles[db]
		if !ok {
			return nil, false
		}
		tags = append(tags, w.files[path]...)
		tags = append(tags, w.wals[path]...)
		return tags, true
	}
	return vrNativeQueryTags(db.QueryStringStmt)
}

// ---------------------------------------------------------------------------------------------
// engine-only abstract database (spec.json "models"); never called natively

type vrStream struct {
	payload []byte
	off     int
	opened  bool
}

func vrEncodeTags(tags []int) []byte {
	b := []byte{0x5A, byte(len(tags))}
	for _, t := range tags {
		b = append(b, byte(t))
	}
	return b
}

func vrOsRemove(name string) error {
	w := vrW
	delete(w.files, name)
	delete(w.wals, name)
	return nil
}

func vrRestore(r io.Reader, dstPath string) (int64, error) {
	w := vrW
	rc, ok := r.(*vrSnapRC)
	if !ok || rc.closed {
		w.badCalls++
		return 0, errors.New("verif: not a snapshot stream")
	}
	w.files[dstPath] = append([]int{}, rc.tags...)
	delete(w.wals, dstPath)
	return 1, nil
}

func vrDefaultDriver() *sql.Driver { return nil }

func vrOpenSwappable(dbPath string, drv *sql.Driver, fkEnabled, wal bool, maxROConns int) (*sql.SwappableDB, error) {
	w := vrW
	if !wal {
		w.badCalls++ // rqlite databases are WAL-mode databases
	}
	if _, ok := w.files[dbPath]; !ok {
		w.files[dbPath] = []int{}
	}
	h := new(sql.SwappableDB)
	w.handles[h] = dbPath
	return h, nil
}

func vrDBClose(db *sql.SwappableDB) error {
	w := vrW
	if _, ok := w.handles[db]; !ok {
		w.badCalls++
	}
	delete(w.handles, db)
	return nil
}

func vrDBCheckpoint(db *sql.SwappableDB, wr io.Writer, timeout time.Duration) (*sql.CheckpointManagerMeta, int64, error) {
	w := vrW
	path, ok := w.handles[db]
	if !ok {
		w.badCalls++
		return nil, 0, errors.New("verif: checkpoint of a database that is not open")
	}
	w.files[path] = append(w.files[path], w.wals[path]...)
	delete(w.wals, path)
	return nil, 0, nil
}

func vrNewDechunkerManager(dir string) (*chunking.DechunkerManager, error) {
	return new(chunking.DechunkerManager), nil
}

// vrProcess: what (*CommandProcessor).Process does with one of the harness payloads.
func vrProcess(c *CommandProcessor, data []byte, db *sql.SwappableDB) (*proto.Command, bool, any) {
	w := vrW
	path, ok := w.handles[db]
	tag := vrTagOf(data)
	if tag < 0 {
		// not a payload of the log (natively: bytes that do not decode to a write) - nothing is applied
		w.badCalls++
		return &proto.Command{Type: proto.Command_COMMAND_TYPE_NOOP}, false, &fsmGenericResponse{}
	}
	if !ok {
		w.badCalls++
		panic("verif: Process called with a database that is not open")
	}
	w.wals[path] = append(w.wals[path], tag)
	return &proto.Command{Type: proto.Command_COMMAND_TYPE_EXECUTE}, true, &fsmExecuteQueryResponse{}
}

func vrNewSnapshotStreamer(dbPath string, walPaths ...string) (*snapshot.SnapshotStreamer, error) {
	w := vrW
	tags, ok := w.files[dbPath]
	if !ok {
		return nil, errors.New("verif: no such database file")
	}
	if len(walPaths) != 0 {
		w.badCalls++
	}
	st := new(snapshot.SnapshotStreamer)
	w.streams[st] = &vrStream{payload: vrEncodeTags(tags)}
	return st, nil
}

func vrStreamerOpen(st *snapshot.SnapshotStreamer) error {
	vrW.streams[st].opened = true
	return nil
}

func vrStreamerRead(st *snapshot.SnapshotStreamer, p []byte) (int, error) {
	s := vrW.streams[st]
	if !s.opened {
		vrW.badCalls++
		return 0, errors.New("verif: streamer is not open")
	}
	if s.off >= len(s.payload) {
		return 0, io.EOF
	}
	n := copy(p, s.payload[s.off:])
	s.off += n
	return n, nil
}

func vrStreamerClose(st *snapshot.SnapshotStreamer) error {
	vrW.streams[st].opened = false
	return nil
}

// vrExpvarGet stands in for (*expvar.Map).Get in the engine (statistics only).
var vrStatInt = new(expvar.Int)

func vrExpvarGet(m *expvar.Map, key string) expvar.Var { return vrStatInt }

// ---------------------------------------------------------------------------------------------
// building a world

func vrNewWorld() *vrWorld {
	w := &vrWorld{tn: &vrTransport{}}
	vrW = w
	if verifSymbolic() {
		w.dir = "/verif-recover"
		w.files = map[string][]int{}
		w.wals = map[string][]int{}
		w.handles = map[*sql.SwappableDB]string{}
		w.streams = map[*snapshot.SnapshotStreamer]*vrStream{}
		return w
	}
	dir, err := os.MkdirTemp("", "verif-recover-")
	if err != nil {
		panic(err)
	}
	w.dir = dir
	return w
}

func (w *vrWorld) cleanup() {
	if !verifSymbolic() {
		os.RemoveAll(w.dir)
	}
}

func vrLogger() *log.Logger { return log.New(io.Discard, "", 0) }

// vrConf: the peers-file configurations. 0..2 are usable, 3 has no voter.
func vrConf(k int) raft.Configuration {
	switch k {
	case 0:
		return raft.Configuration{Servers: []raft.Server{{Suffrage: raft.Voter, ID: "n1", Address: "h1:4002"}}}
	case 1:
		return raft.Configuration{Servers: []raft.Server{
			{Suffrage: raft.Nonvoter, ID: "n2", Address: "h2:4002"},
			{Suffrage: raft.Voter, ID: "n1", Address: "h1:4002"}}}
	case 2:
		return raft.Configuration{Servers: []raft.Server{
			{Suffrage: raft.Voter, ID: "n3", Address: "h3:4002"},
			{Suffrage: raft.Voter, ID: "n1", Address: "h1:4002"},
			{Suffrage: raft.Voter, ID: "n2", Address: "h2:4002"}}}
	}
	return raft.Configuration{Servers: []raft.Server{{Suffrage: raft.Nonvoter, ID: "n1", Address: "h1:4002"}}}
}

func vrSameConf(a, b raft.Configuration) bool {
	if len(a.Servers) != len(b.Servers) {
		return false
	}
	for i := range a.Servers {
		if a.Servers[i] != b.Servers[i] {
			return false
		}
	}
	return true
}

// vrScenario: the situation a node was left in - at most one or two snapshots, a log.
type vrScenario struct {
	w        *vrWorld
	hasSnap  bool
	snapIdx  uint64
	snapTerm uint64
	n        int // log entries
	below    int // of which at or below the snapshot index (already part of the snapshot)
	confKind int
	conf     raft.Configuration
}

// vrSetup chooses the situation. peers < 0: the peers configuration is chosen too.
func vrSetup(maxN int, withFailures bool, peers int) *vrScenario {
	w := vrNewWorld()
	sc := &vrScenario{w: w}
	sc.n = verifChoice("entries", maxN+1)
	sc.hasSnap = verifChoice("snapshot", 2) == 1
	if sc.hasSnap {
		sc.snapIdx = verifU64("snapIndex")
		sc.snapTerm = verifU64("snapTerm")
		verifAssume(sc.snapIdx >= 1)
		verifAssume(sc.snapIdx <= 1<<60)
		// trailing logs: some of the entries may still be in the log although the snapshot covers them
		sc.below = verifChoice("entriesCoveredBySnapshot", sc.n+1)
		verifAssume(sc.snapIdx >= uint64(sc.below))
		w.metas = append(w.metas, &raft.SnapshotMeta{ID: "snap-newest", Index: sc.snapIdx, Term: sc.snapTerm, Version: 1})
		if verifChoice("olderSnapshotToo", 2) == 1 {
			verifAssume(sc.snapIdx >= 2)
			w.metas = append(w.metas, &raft.SnapshotMeta{ID: "snap-older", Index: sc.snapIdx - 1, Term: sc.snapTerm, Version: 1})
		}
	}
	if sc.n > 0 {
		w.first = sc.snapIdx + 1 - uint64(sc.below)
	}
	for p := 0; p < sc.n; p++ {
		t := verifU8(verifName("type", p))
		verifAssume(t <= uint8(raft.LogConfiguration)) // LogCommand, LogNoop, LogAddPeerDeprecated, LogRemovePeerDeprecated, LogBarrier, LogConfiguration
		w.ents = append(w.ents, vrEntry{typ: raft.LogType(t), term: verifU64(verifName("term", p)), data: vrData(p)})
	}
	sc.confKind = peers
	if peers < 0 {
		sc.confKind = verifChoice("peers", 4)
	}
	sc.conf = vrConf(sc.confKind)
	if withFailures {
		w.fail = verifChoice("failurePoint", vrFailN)
		w.failAt = w.last()
	}
	return sc
}

// wantTags is the expectation, from the statements: "rebuilds its database from the latest snapshot
// plus all log entries after it" / "every node that applies the same sequence of committed writes
// ends with identical contents": the snapshot's state, then the command entries after it, in order.
func (sc *vrScenario) wantTags() []int {
	var want []int
	if sc.hasSnap {
		want = append(want, vrMarker)
	}
	for p := sc.below; p < sc.n; p++ {
		if sc.w.ents[p].typ == raft.LogCommand {
			want = append(want, 1+p)
		}
	}
	return want
}

func (sc *vrScenario) recover() error {
	w := sc.w
	return RecoverNode(w.dir, nil, vrLogger(), &vrLogStore{w}, nil, &vrSnapStore{w}, w.tn, sc.conf)
}

// vrNewLiveStore builds a Store with exactly the fields (*Store).fsmApply touches, over a database
// that holds the newest snapshot's state (if there is a snapshot). Node-local bookkeeping (indexes,
// terms, "first log applied" time) is arbitrary.
func vrNewLiveStore(sc *vrScenario) *Store {
	w := sc.w
	path := filepath.Join(w.dir, "live.db")
	if sc.hasSnap {
		rc := w.snapshotStream(0)
		if _, err := snapshot.Restore(rc, path); err != nil {
			panic("verif: cannot restore the snapshot for the live node")
		}
		rc.Close()
	}
	db, err := sql.OpenSwappable(path, nil, false, true, 0)
	if err != nil {
		panic("verif: cannot open the live database")
	}
	s := &Store{
		open:           rsync.NewAtomicBool(),
		raftID:         "live",
		db:             db,
		fsmTarget:      rsync.NewReadyTarget[uint64](),
		appliedTarget:  rsync.NewReadyTarget[uint64](),
		fsmUpdateTime:  rsync.NewAtomicTime(),
		appendedAtTime: rsync.NewAtomicTime(),
		dbModifiedTime: rsync.NewAtomicTime(),
		logger:         vrLogger(),
	}
	s.cmdProc = NewCommandProcessor(s.logger, nil)
	s.open.Set()
	s.fsmIdx.Store(verifU64("local-fsmIdx"))
	s.fsmTerm.Store(verifU64("local-fsmTerm"))
	s.dbAppliedIdx.Store(verifU64("local-dbAppliedIdx"))
	s.numNoops.Store(verifU64("local-numNoops"))
	if verifBool("local-notTheFirstLog") {
		s.firstLogAppliedT = time.Now()
	}
	return s
}
