package store

import (
	"context"
	"errors"
	"io"
	"log"
	"sync/atomic"
	"time"

	"github.com/hashicorp/raft"
	"github.com/rqlite/rqlite/v10/command"
	"github.com/rqlite/rqlite/v10/command/proto"
	sql "github.com/rqlite/rqlite/v10/db"
	"github.com/rqlite/rqlite/v10/internal/rsync"
	"github.com/rqlite/rqlite/v10/store/throttler"
)

// =============================================================================================
// Shared model code of C16b and C38 (kept identical in both directories): the raft contract of
// DESIGN.md section 4.5 as ordinary Go.
//
//   - symbolic run: spec.json "models" maps the methods of the concrete *raft.Raft that the read
//     paths call onto the verifRaft* functions below;
//   - native replay: the same functions are reached through raft.VerifHooks, a hook set that a
//     patched copy of hashicorp/raft v1.7.3 api.go (raft_api.go.txt, spec "native_replace")
//     consults first. So the replay executes the REAL store code with the Go runtime against
//     exactly the environment the solver chose.
//   - the genuine defects are additionally confirmed on real clusters (native_defect_test.go).
//
// What the model promises (and nothing else): the term and the commit index never decrease; a
// node's role, the known leader and the result of VerifyLeader/Apply are arbitrary at every call
// (volatile world) or fixed (stable world); Apply that succeeds appends one committed entry.
// Every call is recorded in a trace; the oracles speak about the trace.
// =============================================================================================

const (
	vEvState  = iota // ok: reported Leader
	vEvTerm          // val: term returned
	vEvCommit        // val: commit index returned
	vEvVerify        // ok: VerifyLeader future returned nil
	vEvApply         // ok: Apply future returned nil; val: index; term: the term the entry was appended in
	vEvConfig        // ok: no error; val: 0 voter, 1 non-voter, 2 not in the configuration
	vEvContact
	vEvLeaderID // ok: a leader is known
)

type verifEv struct {
	kind int
	ok   bool
	val  uint64
	term uint64
}

type verifRaftWorld struct {
	n        int  // number of environment steps so far (also keys the nondet names)
	volatile bool // role, term, commit index, known leader may change between any two calls
	leader   bool
	known    bool // a leader is known (LeaderWithID non-empty)
	term     uint64
	commit   uint64
	contact  time.Time
	voter    int // 0 voter, 1 non-voter, 2 not in the configuration, 3 GetConfiguration fails; -1 = not looked at yet (chosen on first use)
	verify   int // stable world: result of VerifyLeader (0 nil, 1 ErrNotLeader, 2 ErrLeadershipLost, 3 other); -1 = choose at the call
	apply    int // result of Apply (0 nil, 1 ErrNotLeader, 2 ErrLeadershipLost, 3 other); -1 = choose at the call
	resp     any // what a successful Apply answers (the FSM's response object)
	onApply  func(idx uint64)
	trace    []verifEv
}

var verifW *verifRaftWorld

const verifSelfID = "self"

var verifErrOther = errors.New("verif: some other raft error")

// step is the environment's move before every observation.
func (w *verifRaftWorld) step() {
	w.n++
	if !w.volatile {
		return
	}
	dt := verifU64(verifName("dTerm", w.n))
	dc := verifU64(verifName("dCommit", w.n))
	verifAssume(dt <= 1<<40) // (one condition per assume: && would fork the path)
	verifAssume(dc <= 1<<40)
	verifAssume(w.term <= 1<<60)
	verifAssume(w.commit <= 1<<60)
	w.term += dt
	w.commit += dc
	w.leader = verifBool(verifName("leader", w.n))
	w.known = verifBool(verifName("leaderKnown", w.n))
}

func (w *verifRaftWorld) rec(kind int, ok bool, val uint64) {
	w.trace = append(w.trace, verifEv{kind: kind, ok: ok, val: val})
}

func verifRaftState(r *raft.Raft) raft.RaftState {
	w := verifW
	w.step()
	if w.leader {
		w.rec(vEvState, true, 0)
		return raft.Leader
	}
	w.rec(vEvState, false, 0)
	return raft.Follower
}

func verifRaftCurrentTerm(r *raft.Raft) uint64 {
	w := verifW
	w.step()
	w.rec(vEvTerm, true, w.term)
	return w.term
}

func verifRaftCommitIndex(r *raft.Raft) uint64 {
	w := verifW
	w.step()
	w.rec(vEvCommit, true, w.commit)
	return w.commit
}

func verifRaftAppliedIndex(r *raft.Raft) uint64 {
	w := verifW
	w.step()
	return w.commit
}

func verifRaftLastContact(r *raft.Raft) time.Time {
	w := verifW
	w.step()
	w.rec(vEvContact, true, 0)
	return w.contact
}

func verifRaftLeaderWithID(r *raft.Raft) (raft.ServerAddress, raft.ServerID) {
	w := verifW
	w.step()
	if w.known {
		w.rec(vEvLeaderID, true, 0)
		return "leader-addr", "leader-id"
	}
	w.rec(vEvLeaderID, false, 0)
	return "", ""
}

func verifRaftLeader(r *raft.Raft) raft.ServerAddress {
	a, _ := verifRaftLeaderWithID(r)
	return a
}

type verifFuture struct {
	err  error
	idx  uint64
	resp any
	conf raft.Configuration
}

func (f *verifFuture) Error() error                      { return f.err }
func (f *verifFuture) Index() uint64                     { return f.idx }
func (f *verifFuture) Response() interface{}             { return f.resp }
func (f *verifFuture) Configuration() raft.Configuration { return f.conf }

func verifRaftErr(k int) error {
	switch k {
	case 0:
		return nil
	case 1:
		return raft.ErrNotLeader
	case 2:
		return raft.ErrLeadershipLost
	}
	return verifErrOther
}

func verifRaftVerifyLeader(r *raft.Raft) raft.Future {
	w := verifW
	w.step()
	k := w.verify
	if k < 0 {
		k = verifChoice(verifName("verifyLeader", w.n), 4)
	}
	w.rec(vEvVerify, k == 0, 0)
	return &verifFuture{err: verifRaftErr(k)}
}

func verifRaftApply(r *raft.Raft, cmd []byte, timeout time.Duration) raft.ApplyFuture {
	w := verifW
	w.step()
	k := w.apply
	if k < 0 {
		k = verifChoice(verifName("apply", w.n), 4)
	}
	if k != 0 {
		w.rec(vEvApply, false, 0)
		return &verifFuture{err: verifRaftErr(k)}
	}
	// the entry is appended, committed and handed to the FSM before the future completes
	w.commit++
	idx := w.commit
	w.trace = append(w.trace, verifEv{kind: vEvApply, ok: true, val: idx, term: w.term})
	if w.onApply != nil {
		w.onApply(idx)
	}
	return &verifFuture{idx: idx, resp: w.resp}
}

func verifRaftBarrier(r *raft.Raft, timeout time.Duration) raft.Future {
	w := verifW
	w.step()
	w.commit++
	return &verifFuture{}
}

// voterKind is this node's membership (the truth the oracle refers to); chosen when first needed.
func (w *verifRaftWorld) voterKind() int {
	if w.voter < 0 {
		w.voter = verifChoice("voter", 4)
	}
	return w.voter
}

func verifRaftGetConfiguration(r *raft.Raft) raft.ConfigurationFuture {
	w := verifW
	w.step()
	if w.voterKind() == 3 {
		w.rec(vEvConfig, false, 0)
		return &verifFuture{err: verifErrOther}
	}
	w.rec(vEvConfig, true, uint64(w.voter))
	servers := []raft.Server{{ID: "other", Address: "other-addr", Suffrage: raft.Voter}}
	switch w.voter {
	case 0:
		servers = append(servers, raft.Server{ID: verifSelfID, Address: "self-addr", Suffrage: raft.Voter})
	case 1:
		servers = append(servers, raft.Server{ID: verifSelfID, Address: "self-addr", Suffrage: raft.Nonvoter})
	}
	return &verifFuture{conf: raft.Configuration{Servers: servers}}
}

// models of the two encoders on the consensus arm (protobuf is not executable symbolically; the
// bytes are never looked at by the model raft). Natively the real functions run.
func verifTryCompress(s *Store, rq command.Requester) ([]byte, bool, error) {
	return []byte{1}, false, nil
}

func verifCommandMarshal(c *proto.Command) ([]byte, error) {
	return []byte{byte(c.Type)}, nil
}

// model of (*CommandProcessor).Process for the symbolic run (command.Unmarshal is protobuf): the
// harnesses only ever put NOOP commands into the log, which Process answers like this without
// touching the database. Natively the real Process decodes the real NOOP bytes.
func verifProcess(c *CommandProcessor, data []byte, db *sql.SwappableDB) (*proto.Command, bool, any) {
	return &proto.Command{Type: proto.Command_COMMAND_TYPE_NOOP}, false, &fsmGenericResponse{}
}

// verifNoopData is the log payload of an rqlite NOOP command (a LogCommand entry for raft).
func verifNoopData() []byte {
	b, err := command.Marshal(&proto.Command{Type: proto.Command_COMMAND_TYPE_NOOP})
	if err != nil {
		panic(err)
	}
	return b
}

// native replay: installs / removes raft.VerifHooks (set by hooks_test.go; nil in the symbolic run)
var verifRaftHooksInstall func()
var verifRaftHooksRemove func()

// verifNewStore builds a Store with exactly the fields the read paths touch. db stays nil: the
// local-read sink (s.db.QueryWithContext) therefore shows up as a recovered nil-pointer panic,
// symbolically and natively alike, and nothing after the sink is part of the claim.
func verifNewStore() *Store {
	s := &Store{
		open:           rsync.NewAtomicBool(),
		raft:           &raft.Raft{}, // never consulted: every method the paths call is modelled
		raftID:         verifSelfID,
		raftTn:         &NodeTransport{commandCommitIndex: &atomic.Uint64{}, leaderCommitIndex: &atomic.Uint64{}},
		readyChans:     rsync.NewReadyChannels(),
		fsmTarget:      rsync.NewReadyTarget[uint64](),
		appliedTarget:  rsync.NewReadyTarget[uint64](),
		fsmUpdateTime:  rsync.NewAtomicTime(),
		appendedAtTime: rsync.NewAtomicTime(),
		dbModifiedTime: rsync.NewAtomicTime(),
		reqMarshaller:  command.NewRequestMarshaler(),
		throttler:      throttler.New(nil, 1, 0),
		logger:         log.New(io.Discard, "", 0),
		ApplyTimeout:   applyTimeout,
	}
	s.cmdProc = NewCommandProcessor(s.logger, nil)
	s.open.Set()
	return s
}

// verifReadOut is what a read through the real entry points came to.
type verifReadOut struct {
	served bool // the local-read sink (s.db.QueryWithContext on the nil database) was reached
	level  proto.ConsistencyLevel
	index  uint64
	err    error
}

func verifReadRecover(out *verifReadOut) {
	if r := recover(); r != nil {
		if st, ok := r.(verifStop); ok {
			panic(st) // native verifAssume/verifAssert inside a model: not ours
		}
		out.served = true
	}
}

func verifQuery(s *Store, qr *proto.QueryRequest) (out verifReadOut) {
	defer verifReadRecover(&out)
	_, out.level, out.index, out.err = s.Query(context.Background(), qr)
	return
}

func verifRequest(s *Store, eqr *proto.ExecuteQueryRequest) (out verifReadOut) {
	defer verifReadRecover(&out)
	_, _, out.index, out.err = s.Request(context.Background(), eqr)
	out.level = eqr.Level
	return
}

var _ = errors.New
var _ = time.Second

// =============================================================================================
// C38: linearizable reads complete on a healthy leader without further writes.
//
// The log model follows hashicorp/raft v1.7.3 (prepareLog / runFSM): every committed entry counts
// for CommitIndex(), but only LogCommand entries are handed to FSM.Apply, in index order; barrier,
// configuration and raft no-op entries never reach the FSM - except that an FSM which implements
// raft.ConfigurationStore gets StoreConfiguration(index, ..) for configuration entries (rqlite's
// FSM does not today; the harness asks the real type, so a repair along that line is understood).
// The harness plays raft's FSM goroutine: it calls the REAL FSM.Apply -> (*Store).fsmApply for each
// command entry (payload: an rqlite NOOP command), some before the read starts, the rest while the
// read is waiting, every one well within the read's timeout. Then it asks the real
// (*Store).Query for a linearizable read and nothing else is written.
// =============================================================================================

type verifC38Scenario struct {
	fresh, paramTimeout, upgrade bool // which variant (see verifC38Setup)
	s                            *Store
	w                            *verifRaftWorld
	term                         uint64
	base                         uint64 // everything up to base was applied and signalled before (0 = fresh node)
	n                            int    // committed entries base+1 .. base+n
	isCmd                        []bool // isCmd[i]: entry base+1+i is a LogCommand
	isConf                       []bool // isConf[i]: it is a LogConfiguration (only told apart when the FSM is a ConfigurationStore)
	nextFSM                      int    // next entry (position) the FSM goroutine has to look at
	done                         chan struct{}
}

// applyUpTo plays raft's FSM goroutine for the entries at positions [sc.nextFSM, upto).
func (sc *verifC38Scenario) applyUpTo(upto int) {
	fsm := NewFSM(sc.s)
	for ; sc.nextFSM < upto; sc.nextFSM++ {
		if !sc.isCmd[sc.nextFSM] {
			// dispatch rule: not a LogCommand, FSM.Apply is not called
			if cs, ok := any(fsm).(raft.ConfigurationStore); ok && sc.isConf[sc.nextFSM] {
				cs.StoreConfiguration(sc.base+1+uint64(sc.nextFSM), raft.Configuration{})
			}
			continue
		}
		fsm.Apply(&raft.Log{Index: sc.base + 1 + uint64(sc.nextFSM), Term: sc.term, Type: raft.LogCommand,
			Data: verifNoopData(), AppendedAt: time.Now()})
	}
}

func verifC38Setup(twin bool) *verifC38Scenario {
	maxN := 2
	sc := &verifC38Scenario{done: make(chan struct{})}
	if twin {
		maxN = 1 // the twin only needs the plain situation
	} else if verifTier() == 1 {
		maxN = 4
	}
	sc.n = verifChoice("entries", maxN+1)
	if twin {
	} else if verifTier() == 1 && sc.n <= 2 {
		// thorough, short histories: every combination of the three variations
		sc.fresh = verifChoice("freshNode", 2) == 1
		sc.paramTimeout = verifChoice("timeoutGiven", 2) == 1
		sc.upgrade = verifChoice("noStrongReadInTermYet", 2) == 1
	} else {
		// the plain situation and each variation on its own
		switch verifChoice("variant", 4) {
		case 1:
			sc.fresh = true
		case 2:
			sc.paramTimeout = true
		case 3:
			sc.upgrade = true
		}
	}
	// a healthy leader: leader state, a known leader, VerifyLeader succeeds, Apply succeeds, nothing changes
	w := &verifRaftWorld{volatile: false, leader: true, known: true, verify: 0, apply: 0, voter: 0}
	sc.w = w
	verifW = w
	sc.term = verifU64("term")
	verifAssume(sc.term >= 1)
	verifAssume(sc.term <= 1<<60)
	w.term = sc.term
	verifSetClock(1_000_000_000_000)

	s := verifNewStore()
	sc.s = s
	if !sc.fresh {
		sc.base = verifU64("base")
		verifAssume(sc.base >= 1)
		verifAssume(sc.base <= 1<<60)
		s.fsmIdx.Store(sc.base)
		s.fsmTarget.Signal(sc.base)
	}
	kinds := 2 // other (barrier, raft no-op, configuration) / command
	if _, ok := any(NewFSM(s)).(raft.ConfigurationStore); ok {
		kinds = 3 // ... / configuration
	}
	for i := 0; i < sc.n; i++ {
		k := verifChoice(verifName("entryKind", i), kinds)
		sc.isCmd = append(sc.isCmd, k == 1)
		sc.isConf = append(sc.isConf, k == 2)
	}
	w.commit = sc.base + uint64(sc.n) // all of them are committed when the read starts

	// the FSM goroutine has got through the first `before` entries when the read starts ...
	before := verifChoice("fsmDoneBeforeRead", sc.n+1)
	sc.applyUpTo(before)
	return sc
}

// startFSM lets the FSM goroutine work through the remaining entries while the read runs; it is
// finished `within` after the read started.
func (sc *verifC38Scenario) startFSM(within int64) {
	rest := sc.n - sc.nextFSM
	if rest == 0 {
		close(sc.done)
		return
	}
	go func() {
		// one pause before every remaining entry, together exactly `within` (histories of 3 and
		// more entries: a single stall of `within` before the first remaining entry)
		left := within
		for sc.nextFSM < sc.n {
			d := left
			if sc.nextFSM < sc.n-1 && sc.n <= 2 {
				d = verifI64(verifName("fsmPause", sc.nextFSM))
				verifAssume(d >= 0)
				verifAssume(d <= left)
			}
			left -= d
			time.Sleep(time.Duration(d))
			sc.applyUpTo(sc.nextFSM + 1)
		}
		close(sc.done)
	}()
}

// lastCommittedReachesFSM: the newest committed entry is one raft tells the FSM about.
func (sc *verifC38Scenario) lastCommittedReachesFSM() bool {
	if sc.n == 0 {
		return true // nothing after what was applied before
	}
	return sc.isCmd[sc.n-1] || sc.isConf[sc.n-1]
}

func verifC38Read(sc *verifC38Scenario, lt int64) verifReadOut {
	return verifQuery(sc.s, &proto.QueryRequest{
		Request:             &proto.Request{Statements: []*proto.Statement{{Sql: "SELECT 1"}}},
		Level:               proto.ConsistencyLevel_LINEARIZABLE,
		LinearizableTimeout: lt,
	})
}

func verifC38Run(twin bool) {
	if verifRaftHooksInstall != nil {
		verifRaftHooksInstall()
		defer verifRaftHooksRemove()
	}
	sc := verifC38Setup(twin)
	s, w := sc.s, sc.w

	// read timeout: the default (parameter 0 -> 1 s) or any value from 1 ms to 5 s
	lt := verifI64("linearizableTimeout")
	effLt := lt
	if !sc.paramTimeout {
		verifAssume(lt == 0)
		effLt = int64(linearizableTimeout)
	} else {
		verifAssume(lt >= int64(time.Millisecond))
		verifAssume(lt <= int64(5*time.Second))
	}
	// healthy: the FSM is through with everything committed strictly before the timeout
	within := verifI64("fsmDoneWithin")
	verifAssume(within >= 0)
	verifAssume(within < effLt)

	// a strong read has been done in this term (then the read is a pure read-index read), or not
	// (first read after a leader change: the store upgrades it to a strong read through the log)
	strongDone := !sc.upgrade
	if strongDone {
		s.strongReadTerm.Store(sc.term)
	} else {
		old := verifU64("olderStrongReadTerm")
		verifAssume(old < sc.term)
		s.strongReadTerm.Store(old)
		w.resp = &fsmQueryResponse{}
		w.onApply = func(idx uint64) {
			// raft appended the read as entry idx = commit+1; its FSM goroutine gets to it after the others
			<-sc.done
			NewFSM(s).Apply(&raft.Log{Index: idx, Term: sc.term, Type: raft.LogCommand, Data: verifNoopData(), AppendedAt: time.Now()})
		}
	}
	sc.startFSM(within)
	t0 := verifClock()
	out := verifC38Read(sc, lt)
	el := verifClock() - t0

	if twin {
		verifAssert("twin", !out.served)
		return
	}
	if !strongDone {
		verifReach("first-read-in-term-upgraded-to-strong")
		verifAssert("C38-upgraded-read-completes", !out.served && out.err == nil && out.level == proto.ConsistencyLevel_STRONG)
		// ... and the next linearizable read (nothing written in between) is a plain one and completes
		out = verifC38Read(sc, lt)
		verifAssert("C38-linearizable-read-after-a-strong-read-completes", out.served)
		return
	}
	if !out.served && !sc.lastCommittedReachesFSM() {
		// recorded defect class: the newest committed entry is a barrier / configuration / raft no-op
		// entry, which raft never shows to the FSM, so fsmTarget never reaches the read index
		verifFinding("C38-trailing-non-command-entry")
	}
	if out.served {
		verifReach("read-completed")
		if el > 0 {
			verifReach("read-completed-after-waiting-for-the-fsm")
		}
		if sc.n > 0 && !sc.isCmd[0] {
			verifReach("read-completed-with-a-non-command-entry-in-the-log")
		}
	}
	verifAssert("C38-linearizable-read-completes-without-further-writes", out.served)
	verifAssert("C38-read-completes-as-soon-as-the-fsm-is-through", el <= within)
}

// VerifC38Read: histories of up to 3 (quick) / 4 (thorough) committed entries of any type.
func VerifC38Read() { verifC38Run(false) }

// Vacuity twin: claims the read never completes.
func VerifC38Twin() { verifC38Run(true) }
