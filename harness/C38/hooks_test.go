package store

import "github.com/hashicorp/raft"

// Native replay only: route the *raft.Raft API methods to the harness's raft contract model
// through the hook set of the patched api.go (raft_api.go.txt, spec "native_replace").
func init() {
	verifRaftHooksInstall = func() {
		raft.VerifHooks = &raft.VerifHookSet{
			Leader:           verifRaftLeader,
			LeaderWithID:     verifRaftLeaderWithID,
			Apply:            verifRaftApply,
			Barrier:          verifRaftBarrier,
			VerifyLeader:     verifRaftVerifyLeader,
			GetConfiguration: verifRaftGetConfiguration,
			State:            verifRaftState,
			LastContact:      verifRaftLastContact,
			CurrentTerm:      verifRaftCurrentTerm,
			CommitIndex:      verifRaftCommitIndex,
			AppliedIndex:     verifRaftAppliedIndex,
		}
	}
	verifRaftHooksRemove = func() { raft.VerifHooks = nil }
}
