package store

import (
	"context"
	"os"
	"testing"
	"time"

	"github.com/rqlite/rqlite/v10/command/proto"
)

// Native confirmation of the recorded C38 defect on a REAL single-node store (real hashicorp/raft,
// real SQLite): write, strong read, linearizable read (fine), raft Barrier() (a committed log entry
// that is not handed to FSM.Apply), linearizable read -> "timeout waiting for fsm".
//
//	VERIF_NATIVE=1 go test -overlay ... -run TestVerifC38NativeBarrier ./store
func TestVerifC38NativeBarrier(t *testing.T) {
	if os.Getenv("VERIF_NATIVE") == "" {
		t.Skip()
	}
	s, ln := mustNewStore(t)
	defer ln.Close()
	if err := s.Open(); err != nil {
		t.Fatal(err)
	}
	defer s.Close(true)
	if err := s.Bootstrap(NewServer(s.ID(), s.Addr(), true)); err != nil {
		t.Fatal(err)
	}
	if _, err := s.WaitForLeader(10 * time.Second); err != nil {
		t.Fatal(err)
	}
	ctx := context.Background()
	er := executeRequestFromStrings([]string{
		`CREATE TABLE foo (id INTEGER NOT NULL PRIMARY KEY, name TEXT)`,
		`INSERT INTO foo(id, name) VALUES(1, "fiona")`,
	}, false, false)
	if _, _, err := s.Execute(ctx, er); err != nil {
		t.Fatal(err)
	}
	read := func(lvl proto.ConsistencyLevel) (proto.ConsistencyLevel, error, time.Duration) {
		qr := queryRequestFromString("SELECT * FROM foo", false, false, false)
		qr.Level = lvl
		t0 := time.Now()
		_, got, _, err := s.Query(ctx, qr)
		return got, err, time.Since(t0)
	}
	if _, err, _ := read(proto.ConsistencyLevel_STRONG); err != nil {
		t.Fatalf("strong read: %v", err)
	}
	lvl, err, d := read(proto.ConsistencyLevel_LINEARIZABLE)
	t.Logf("linearizable read after strong read: level=%v err=%v in %v (fsmIdx=%d commit=%d)", lvl, err, d, s.fsmIdx.Load(), s.raft.CommitIndex())
	if err != nil || lvl != proto.ConsistencyLevel_LINEARIZABLE {
		t.Fatalf("first linearizable read must succeed without upgrade: %v %v", lvl, err)
	}
	if err := s.Barrier(); err != nil {
		t.Fatalf("barrier: %v", err)
	}
	if !s.IsLeader() {
		t.Fatal("not leader any more")
	}
	lvl, err, d = read(proto.ConsistencyLevel_LINEARIZABLE)
	t.Logf("linearizable read after Barrier(): level=%v err=%v in %v (fsmIdx=%d commit=%d)", lvl, err, d, s.fsmIdx.Load(), s.raft.CommitIndex())
	if err != nil {
		t.Logf("DEFECT CONFIRMED: a linearizable read on a healthy leader failed with no write outstanding")
		// and it keeps failing until the next command entry
		_, err2, _ := read(proto.ConsistencyLevel_LINEARIZABLE)
		t.Logf("second linearizable read: err=%v", err2)
		if _, errS, _ := read(proto.ConsistencyLevel_STRONG); errS != nil {
			t.Fatalf("strong read: %v", errS)
		}
		_, err3, _ := read(proto.ConsistencyLevel_LINEARIZABLE)
		t.Logf("linearizable read after another strong read: err=%v", err3)
		if os.Getenv("VERIF_EXPECT_DEFECT") == "" {
			t.Fail()
		}
	}
}

// Same defect through a membership change: a node joins (configuration entry), then the leader
// is asked for a linearizable read.
func TestVerifC38NativeJoin(t *testing.T) {
	if os.Getenv("VERIF_NATIVE") == "" {
		t.Skip()
	}
	s0, ln0 := mustNewStore(t)
	defer ln0.Close()
	if err := s0.Open(); err != nil {
		t.Fatal(err)
	}
	defer s0.Close(true)
	if err := s0.Bootstrap(NewServer(s0.ID(), s0.Addr(), true)); err != nil {
		t.Fatal(err)
	}
	if _, err := s0.WaitForLeader(10 * time.Second); err != nil {
		t.Fatal(err)
	}
	ctx := context.Background()
	er := executeRequestFromStrings([]string{`CREATE TABLE foo (id INTEGER NOT NULL PRIMARY KEY, name TEXT)`}, false, false)
	if _, _, err := s0.Execute(ctx, er); err != nil {
		t.Fatal(err)
	}
	read := func(lvl proto.ConsistencyLevel) (proto.ConsistencyLevel, error) {
		qr := queryRequestFromString("SELECT * FROM foo", false, false, false)
		qr.Level = lvl
		_, got, _, err := s0.Query(ctx, qr)
		return got, err
	}
	if _, err := read(proto.ConsistencyLevel_STRONG); err != nil {
		t.Fatal(err)
	}
	if lvl, err := read(proto.ConsistencyLevel_LINEARIZABLE); err != nil || lvl != proto.ConsistencyLevel_LINEARIZABLE {
		t.Fatalf("first linearizable read: %v %v", lvl, err)
	}
	s1, ln1 := mustNewStore(t)
	defer ln1.Close()
	if err := s1.Open(); err != nil {
		t.Fatal(err)
	}
	defer s1.Close(true)
	if err := s0.Join(joinRequest(s1.ID(), s1.Addr(), true)); err != nil {
		t.Fatal(err)
	}
	if _, err := s1.WaitForLeader(10 * time.Second); err != nil {
		t.Fatal(err)
	}
	if !s0.IsLeader() {
		t.Skip("leadership moved")
	}
	lvl, err := read(proto.ConsistencyLevel_LINEARIZABLE)
	t.Logf("linearizable read after join: level=%v err=%v (fsmIdx=%d commit=%d)", lvl, err, s0.fsmIdx.Load(), s0.raft.CommitIndex())
	if err != nil {
		t.Logf("DEFECT CONFIRMED: linearizable read directly after a membership change fails")
		if os.Getenv("VERIF_EXPECT_DEFECT") == "" {
			t.Fail()
		}
	}
}
