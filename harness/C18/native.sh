#!/bin/bash
# Runs the native drivers of C18 (TestVerifC18Native*) against ${VERIF_REPO:-/repo} with the harness overlaid.
set -e
export GOFLAGS=-mod=mod GOPROXY=off GOSUMDB=off GOTOOLCHAIN=local PATH=/opt/veriftools/go1.26.8/bin:$PATH
R=${VERIF_REPO:-/repo}
H=/verif/harness/C18
T=$(mktemp -d)
trap 'rm -rf $T' EXIT
sed 's/^package PKG/package cluster/' /verif/harness/api/api.go.txt > $T/api.go
cat > $T/overlay.json <<EOJ
{"Replace":{"$R/cluster/zz_verif_harness.go":"$H/harness.go",
"$R/cluster/zz_verif_api.go":"$T/api.go",
"$R/cluster/zz_verif_native_test.go":"$H/native_test.go"}}
EOJ
cd $R && go test -vet=off -count=1 -overlay $T/overlay.json -run "${RUN:-^TestVerifC18Native}" -v ./cluster 2>&1 | tail -${TAIL:-25}
