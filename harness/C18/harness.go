package cluster

// C18 "Every endpoint and inter-node request enforces its permission" - the inter-node half.
//
// Code under test, run from its real source: (*Service).handleConn, checkCommandPerm,
// checkCommandPermAll, marshalAndWrite, writeBytesWithLength, gzCompress (cluster/service.go).
//
// The harness is the peer and the rest of the node:
//
//   - verifConn (net.Conn): serves a scripted byte stream of length-prefixed frames and records every
//     byte the service writes, tagged with the request that was being handled;
//   - verifDB / verifMgr (cluster.Database / cluster.Manager): record every call in one ordered log;
//   - verifCreds (cluster.CredentialStore): answers every (request, permission) with a symbolic
//     verdict and records user, password and permission string in the same log.
//
// A request is a proto.Command whose Type and oneof payload are chosen INDEPENDENTLY (a peer
// controls both): every defined type, the zero type, an undefined and a negative type value x every
// payload kind, no payload, and a payload wrapper whose inner message is nil.
//
// Oracle (table verifRequired, transcribed from the auth constants and the documented intent of
// each command): whatever the service does to the database or the cluster while handling a request
// is preceded, in the same request, by a GRANTED check of exactly the required permission for the
// user and password the request carries; a refused request is answered with "unauthorized" and
// nothing else is written to the connection until the next request is read.
//
// Natively (replay of every counterexample and finding witness) the real protobuf and gzip run and
// the frames are real encodings; in the symbolic run both are replaced by the codec algebra at the
// bottom of this file (spec.json "models").

import (
	"bytes"
	"compress/gzip"
	"context"
	"encoding/binary"
	"errors"
	"io"
	"log"
	"net"
	"time"

	"github.com/rqlite/rqlite/v10/cluster/proto"
	command "github.com/rqlite/rqlite/v10/command/proto"
	pb "google.golang.org/protobuf/proto"
)

// ---------------------------------------------------------------------------
// permissions: the oracle's own table (strings as documented for the credentials file)

const (
	verifPermExecute  = "execute"
	verifPermQuery    = "query"
	verifPermBackup   = "backup"
	verifPermLoad     = "load"
	verifPermRemove   = "remove"
	verifPermJoin     = "join"
	verifPermJoinRO   = "join-read-only"
	verifPermJoinRR   = "join-read-replica"
	verifPermLeaderOp = "leader-ops"
)

// verifRequired: the permissions a command type needs (ALL of them), nil = no permission defined.
// JOIN is special (depends on the voter flag) and handled in verifAuthorized.
func verifRequired(t proto.Command_Type) []string {
	switch t {
	case proto.Command_COMMAND_TYPE_EXECUTE:
		return []string{verifPermExecute}
	case proto.Command_COMMAND_TYPE_QUERY:
		return []string{verifPermQuery}
	case proto.Command_COMMAND_TYPE_REQUEST:
		return []string{verifPermQuery, verifPermExecute}
	case proto.Command_COMMAND_TYPE_BACKUP, proto.Command_COMMAND_TYPE_BACKUP_STREAM:
		return []string{verifPermBackup}
	case proto.Command_COMMAND_TYPE_LOAD:
		return []string{verifPermLoad}
	case proto.Command_COMMAND_TYPE_REMOVE_NODE:
		return []string{verifPermRemove}
	case proto.Command_COMMAND_TYPE_NOTIFY:
		return []string{verifPermJoin}
	case proto.Command_COMMAND_TYPE_STEPDOWN:
		return []string{verifPermLeaderOp}
	}
	return nil
}

// verifMayCheck: the permission strings a request of this type may be checked against at all.
func verifMayCheck(t proto.Command_Type, perm string) bool {
	if t == proto.Command_COMMAND_TYPE_JOIN {
		return perm == verifPermJoin || perm == verifPermJoinRO || perm == verifPermJoinRR
	}
	for _, p := range verifRequired(t) {
		if p == perm {
			return true
		}
	}
	return false
}

// verifEffectOf: the one call a command type stands for ("" = none).
func verifEffectOf(t proto.Command_Type) string {
	switch t {
	case proto.Command_COMMAND_TYPE_EXECUTE:
		return "db.Execute"
	case proto.Command_COMMAND_TYPE_QUERY:
		return "db.Query"
	case proto.Command_COMMAND_TYPE_REQUEST:
		return "db.Request"
	case proto.Command_COMMAND_TYPE_BACKUP, proto.Command_COMMAND_TYPE_BACKUP_STREAM:
		return "db.Backup"
	case proto.Command_COMMAND_TYPE_LOAD:
		return "db.Load"
	case proto.Command_COMMAND_TYPE_REMOVE_NODE:
		return "mgr.Remove"
	case proto.Command_COMMAND_TYPE_NOTIFY:
		return "mgr.Notify"
	case proto.Command_COMMAND_TYPE_JOIN:
		return "mgr.Join"
	case proto.Command_COMMAND_TYPE_STEPDOWN:
		return "mgr.Stepdown"
	}
	return ""
}

// ---------------------------------------------------------------------------
// requests

const (
	verifKNone = iota
	verifKExecute
	verifKQuery
	verifKBackup
	verifKLoad
	verifKRemove
	verifKNotify
	verifKJoin
	verifKExecuteQuery
	verifKLoadChunk
	verifKStepdown
	verifKHWM
	verifKNilInner // the wrapper that belongs to the command type, with a nil inner message
	verifKinds
)

const verifTypeChoices = 16

// verifTypeOf: choice 0..13 are the defined enum values (0 = UNKNOWN), 14 an undefined positive
// value, 15 a negative one.
func verifTypeOf(choice int) proto.Command_Type {
	switch choice {
	case 14:
		return proto.Command_Type(99)
	case 15:
		return proto.Command_Type(-1)
	}
	return proto.Command_Type(int32(choice))
}

// verifKindFor: the payload kind a command type reads (verifKNone: it reads none).
func verifKindFor(t proto.Command_Type) int {
	switch t {
	case proto.Command_COMMAND_TYPE_EXECUTE:
		return verifKExecute
	case proto.Command_COMMAND_TYPE_QUERY:
		return verifKQuery
	case proto.Command_COMMAND_TYPE_REQUEST:
		return verifKExecuteQuery
	case proto.Command_COMMAND_TYPE_BACKUP, proto.Command_COMMAND_TYPE_BACKUP_STREAM:
		return verifKBackup
	case proto.Command_COMMAND_TYPE_LOAD:
		return verifKLoad
	case proto.Command_COMMAND_TYPE_LOAD_CHUNK:
		return verifKLoadChunk
	case proto.Command_COMMAND_TYPE_REMOVE_NODE:
		return verifKRemove
	case proto.Command_COMMAND_TYPE_NOTIFY:
		return verifKNotify
	case proto.Command_COMMAND_TYPE_JOIN:
		return verifKJoin
	case proto.Command_COMMAND_TYPE_STEPDOWN:
		return verifKStepdown
	case proto.Command_COMMAND_TYPE_HIGHWATER_MARK_UPDATE:
		return verifKHWM
	}
	return verifKNone
}

// verifReq is one request the peer sends.
type verifReq struct {
	idx     int
	typ     proto.Command_Type
	kind    int  // payload kind on the wire (verifKNilInner resolved to the type's own kind)
	nilIn   bool // the payload wrapper carries a nil inner message
	present bool // the command type finds its payload (right kind, inner message not nil)
	hasCred bool
	user    string
	pass    string
	nodeID  string
	voter   bool // join
	wait    bool // stepdown
	cmd     *proto.Command
	end     int // offset in the peer's byte stream just after this request
}

func verifPayload(r *verifReq, kind int, inner bool) {
	c := r.cmd
	switch kind {
	case verifKExecute:
		w := &proto.Command_ExecuteRequest{}
		if inner {
			w.ExecuteRequest = &command.ExecuteRequest{Request: &command.Request{Statements: []*command.Statement{{Sql: "INSERT INTO t VALUES(1)"}}}}
		}
		c.Request = w
	case verifKQuery:
		w := &proto.Command_QueryRequest{}
		if inner {
			w.QueryRequest = &command.QueryRequest{Request: &command.Request{Statements: []*command.Statement{{Sql: "SELECT * FROM t"}}}}
		}
		c.Request = w
	case verifKBackup:
		w := &proto.Command_BackupRequest{}
		if inner {
			w.BackupRequest = &command.BackupRequest{Format: command.BackupRequest_BACKUP_REQUEST_FORMAT_BINARY}
		}
		c.Request = w
	case verifKLoad:
		w := &proto.Command_LoadRequest{}
		if inner {
			w.LoadRequest = &command.LoadRequest{Data: []byte("SQLite format 3")}
		}
		c.Request = w
	case verifKRemove:
		w := &proto.Command_RemoveNodeRequest{}
		if inner {
			w.RemoveNodeRequest = &command.RemoveNodeRequest{Id: r.nodeID}
		}
		c.Request = w
	case verifKNotify:
		w := &proto.Command_NotifyRequest{}
		if inner {
			w.NotifyRequest = &command.NotifyRequest{Id: r.nodeID, Address: "peer:4002"}
		}
		c.Request = w
	case verifKJoin:
		w := &proto.Command_JoinRequest{}
		if inner {
			w.JoinRequest = &command.JoinRequest{Id: r.nodeID, Address: "peer:4002", Voter: r.voter}
		}
		c.Request = w
	case verifKExecuteQuery:
		w := &proto.Command_ExecuteQueryRequest{}
		if inner {
			w.ExecuteQueryRequest = &command.ExecuteQueryRequest{Request: &command.Request{Statements: []*command.Statement{{Sql: "SELECT 1"}}}}
		}
		c.Request = w
	case verifKLoadChunk:
		w := &proto.Command_LoadChunkRequest{}
		if inner {
			w.LoadChunkRequest = &command.LoadChunkRequest{StreamId: "s", Data: []byte{1}}
		}
		c.Request = w
	case verifKStepdown:
		w := &proto.Command_StepdownRequest{}
		if inner {
			w.StepdownRequest = &command.StepdownRequest{Id: r.nodeID, Wait: r.wait}
		}
		c.Request = w
	case verifKHWM:
		w := &proto.Command_HighwaterMarkUpdateRequest{}
		if inner {
			w.HighwaterMarkUpdateRequest = &proto.HighwaterMarkUpdateRequest{NodeId: r.nodeID, HighwaterMark: 7}
		}
		c.Request = w
	}
}

// verifNewReq builds request idx from the given choices. voter/wait are symbolic flags.
func verifNewReq(idx, typeChoice, kindChoice int, hasCred bool) *verifReq {
	r := &verifReq{idx: idx, typ: verifTypeOf(typeChoice), hasCred: hasCred}
	r.nodeID = verifName("node", idx)
	r.voter = verifBool(verifName("voter", idx))
	r.wait = verifBool(verifName("wait", idx))
	r.cmd = &proto.Command{Type: r.typ}
	if hasCred {
		r.user, r.pass = verifName("user", idx), verifName("secret", idx)
		r.cmd.Credentials = &proto.Credentials{Username: r.user, Password: r.pass}
	}
	own := verifKindFor(r.typ)
	r.kind = kindChoice
	if kindChoice == verifKNilInner {
		// a wrapper of the type's own kind with a nil inner message. protobuf never decodes to that
		// shape (a present field always gets a message), every getter returns nil for it exactly as
		// for an absent payload: the native replay sends "no payload".
		r.kind, r.nilIn = own, true
		if verifSymbolic() {
			verifPayload(r, own, false)
		} else {
			r.kind = verifKNone
		}
	} else {
		verifPayload(r, kindChoice, true)
	}
	r.present = own != verifKNone && r.kind == own && !r.nilIn
	return r
}

// ---------------------------------------------------------------------------
// the ordered log of everything the service did

type verifEv struct {
	what string // "aa", "write", "read", "close", or an effect: "db.Execute", "mgr.Join", ...
	req  int    // index of the request being handled (-1: none read completely yet)
	user string
	pass string
	perm string
	ok   bool   // aa: the verdict
	data []byte // write: the bytes
	id   string // effects: node id argument
	flag bool   // effects: voter / wait argument
	nn   bool   // effects: request argument not nil
	off  int    // how many bytes of the peer's stream had been consumed
}

type verifWorld struct {
	conn  *verifConn
	evs   []verifEv
	reqs  []*verifReq
	marks []verifVerdict
	hwm   chan uint64
	// noFail: the database and the manager always succeed (no choice of failures)
	noFail bool
}

// fails: does the call made for the current request fail? (one path each)
func (w *verifWorld) fails(what string, n int) int {
	if w.noFail {
		return 0
	}
	return verifChoice(what+"-"+verifName("req", w.conn.cur()), n)
}

type verifVerdict struct {
	req  int
	perm string
	ok   bool
}

func (w *verifWorld) add(e verifEv) {
	e.req, e.off = w.conn.cur(), w.conn.off
	w.evs = append(w.evs, e)
}

func verifIsEffect(what string) bool {
	return what != "aa" && what != "write" && what != "read" && what != "close"
}

// ---------------------------------------------------------------------------
// net.Conn

var verifErrClosed = errors.New("use of closed network connection")

type verifTimeout struct{}

func (verifTimeout) Error() string   { return "i/o timeout" }
func (verifTimeout) Timeout() bool   { return true }
func (verifTimeout) Temporary() bool { return true }

type verifAddr struct{}

func (verifAddr) Network() string { return "tcp" }
func (verifAddr) String() string  { return "peer:4002" }

type verifConn struct {
	w       *verifWorld
	in      []byte // what the peer sends
	off     int
	endErr  error // what Read reports after the last byte
	ends    []int // offsets at which a request is complete
	closed  int
	ioAfter int // reads or writes after Close
	failDL  int // SetReadDeadline call (1-based) that fails, 0 = none
	nDL     int
	chunk   int // > 0: Read delivers at most chunk bytes at a time
}

// cur: the request whose bytes have been consumed completely (the one being handled).
func (c *verifConn) cur() int {
	n := -1
	for i, e := range c.ends {
		if e <= c.off {
			n = i
		}
	}
	return n
}

func (c *verifConn) Read(p []byte) (int, error) {
	if c.closed > 0 {
		c.ioAfter++
		return 0, verifErrClosed
	}
	verifJudgeAlloc(c, uint64(len(p))) // the buffer the service has allocated for what it expects
	if len(p) == 0 {
		return 0, nil
	}
	if c.off >= len(c.in) {
		return 0, c.endErr
	}
	src := c.in[c.off:]
	if c.chunk > 0 && len(src) > c.chunk {
		src = src[:c.chunk]
	}
	n := copy(p, src)
	c.off += n
	return n, nil
}

func (c *verifConn) Write(p []byte) (int, error) {
	if c.closed > 0 {
		c.ioAfter++
		return 0, verifErrClosed
	}
	c.w.add(verifEv{what: "write", data: append([]byte{}, p...)})
	return len(p), nil
}

func (c *verifConn) Close() error {
	c.closed++
	if c.closed > 1 {
		return verifErrClosed
	}
	return nil
}

func (c *verifConn) LocalAddr() net.Addr  { return verifAddr{} }
func (c *verifConn) RemoteAddr() net.Addr { return verifAddr{} }
func (c *verifConn) SetDeadline(t time.Time) error {
	return nil
}
func (c *verifConn) SetReadDeadline(t time.Time) error {
	c.nDL++
	if c.nDL == c.failDL {
		return verifTimeout{}
	}
	return nil
}
func (c *verifConn) SetWriteDeadline(t time.Time) error { return nil }

// written: all bytes the service wrote while handling request i, in order.
func (w *verifWorld) written(i int) []byte {
	var out []byte
	for _, e := range w.evs {
		if e.what == "write" && e.req == i {
			out = append(out, e.data...)
		}
	}
	return out
}

// ---------------------------------------------------------------------------
// credential store

type verifCreds struct{ w *verifWorld }

func (c *verifCreds) AA(username, password, perm string) bool {
	req := c.w.conn.cur()
	var ok bool
	found := false
	for _, m := range c.w.marks {
		if m.req == req && m.perm == perm {
			ok, found = m.ok, true
		}
	}
	if !found {
		ok = verifBool("grant-" + perm + "-" + verifName("req", req))
		c.w.marks = append(c.w.marks, verifVerdict{req: req, perm: perm, ok: ok})
	}
	c.w.add(verifEv{what: "aa", user: username, pass: password, perm: perm, ok: ok})
	return ok
}

// ---------------------------------------------------------------------------
// database and manager

var verifBackupImage = []byte("SQLite format 3\x00 the whole database")

type verifDB struct{ w *verifWorld }

func (d *verifDB) fails(what string) error {
	if d.w.fails(what+"-fails", 2) == 1 {
		return errors.New("database is busy")
	}
	return nil
}

func (d *verifDB) Execute(ctx context.Context, er *command.ExecuteRequest) ([]*command.ExecuteQueryResponse, uint64, error) {
	d.w.add(verifEv{what: "db.Execute", nn: er != nil})
	if err := d.fails("execute"); err != nil {
		return nil, 0, err
	}
	return []*command.ExecuteQueryResponse{{}}, 11, nil
}

func (d *verifDB) Query(ctx context.Context, qr *command.QueryRequest) ([]*command.QueryRows, command.ConsistencyLevel, uint64, error) {
	d.w.add(verifEv{what: "db.Query", nn: qr != nil})
	if err := d.fails("query"); err != nil {
		return nil, 0, 0, err
	}
	return []*command.QueryRows{{Columns: []string{"secret"}}}, 0, 12, nil
}

func (d *verifDB) Request(ctx context.Context, rr *command.ExecuteQueryRequest) ([]*command.ExecuteQueryResponse, uint64, uint64, error) {
	d.w.add(verifEv{what: "db.Request", nn: rr != nil})
	if err := d.fails("request"); err != nil {
		return nil, 0, 0, err
	}
	return []*command.ExecuteQueryResponse{{}}, 1, 13, nil
}

func (d *verifDB) Backup(ctx context.Context, br *command.BackupRequest, dst io.Writer) error {
	d.w.add(verifEv{what: "db.Backup", nn: br != nil})
	if err := d.fails("backup"); err != nil {
		return err
	}
	_, err := dst.Write(verifBackupImage)
	return err
}

func (d *verifDB) Load(ctx context.Context, lr *command.LoadRequest) error {
	d.w.add(verifEv{what: "db.Load", nn: lr != nil})
	return d.fails("load")
}

type verifMgr struct{ w *verifWorld }

func (m *verifMgr) LeaderAddr() (string, error) {
	m.w.add(verifEv{what: "read"})
	return "leader:4002", nil
}

func (m *verifMgr) CommitIndex() (uint64, error) {
	m.w.add(verifEv{what: "read"})
	if m.w.fails("commit-index-fails", 2) == 1 {
		return 0, errors.New("not open")
	}
	return 42, nil
}

func (m *verifMgr) Remove(ctx context.Context, rn *command.RemoveNodeRequest) error {
	m.w.add(verifEv{what: "mgr.Remove", nn: rn != nil, id: rn.GetId()})
	if m.w.fails("remove-fails", 2) == 1 {
		return errors.New("not leader")
	}
	return nil
}

func (m *verifMgr) Notify(n *command.NotifyRequest) error {
	m.w.add(verifEv{what: "mgr.Notify", nn: n != nil, id: n.GetId()})
	if m.w.fails("notify-fails", 2) == 1 {
		return errors.New("bootstrap failed")
	}
	return nil
}

func (m *verifMgr) Join(n *command.JoinRequest) error {
	m.w.add(verifEv{what: "mgr.Join", nn: n != nil, id: n.GetId(), flag: n.GetVoter()})
	switch m.w.fails("join-result", 3) {
	case 1:
		return errors.New("not leader")
	case 2:
		return errors.New("join failed")
	}
	return nil
}

func (m *verifMgr) Stepdown(wait bool, id string) error {
	m.w.add(verifEv{what: "mgr.Stepdown", nn: true, id: id, flag: wait})
	if m.w.fails("stepdown-fails", 2) == 1 {
		return errors.New("not leader")
	}
	return nil
}

// ---------------------------------------------------------------------------
// world construction

// verifNewWorld: a service wired to the models, and the peer's byte stream made of reqs.
func verifNewWorld(reqs []*verifReq, endErr error) (*Service, *verifWorld) {
	w := &verifWorld{reqs: reqs, hwm: make(chan uint64, 1)}
	c := &verifConn{w: w, endErr: endErr}
	w.conn = c
	for _, r := range reqs {
		body, err := pb.Marshal(r.cmd)
		verifAssume(err == nil)
		c.in = append(c.in, verifPrefix(uint64(len(body)))...)
		c.in = append(c.in, body...)
		r.end = len(c.in)
		c.ends = append(c.ends, r.end)
	}
	s := &Service{
		db:              &verifDB{w: w},
		mgr:             &verifMgr{w: w},
		credentialStore: &verifCreds{w: w},
		connTimeout:     connReadTimeout,
		connLimit:       maxConcurrentConns,
		apiAddr:         "node:4001",
		version:         "v10",
		logger:          log.New(io.Discard, "", 0),
	}
	s.RegisterHWMUpdate(w.hwm)
	return s, w
}

func verifPrefix(n uint64) []byte {
	b := make([]byte, 8)
	binary.LittleEndian.PutUint64(b, n)
	return b
}

// verifServe runs the handler as the service's accept loop does. A Go panic in it is reported
// (it would kill the node).
func verifServe(s *Service, c *verifConn) (panicked bool) {
	defer func() {
		if r := recover(); r != nil {
			if _, mine := r.(verifStop); mine {
				panic(r) // native replay: an assumption/assertion/finding of the harness itself
			}
			panicked = true
		}
	}()
	s.handleConn(c)
	return false
}

// ---------------------------------------------------------------------------
// replies

type verifReply struct {
	err     string
	leader  string
	hasData bool
}

func verifReplyOf(m pb.Message) (verifReply, bool) {
	switch x := m.(type) {
	case *proto.CommandExecuteResponse:
		return verifReply{err: x.Error, hasData: len(x.Response) > 0 || x.RaftIndex != 0}, true
	case *proto.CommandQueryResponse:
		return verifReply{err: x.Error, hasData: len(x.Rows) > 0 || x.RaftIndex != 0}, true
	case *proto.CommandRequestResponse:
		return verifReply{err: x.Error, hasData: len(x.Response) > 0 || x.RaftIndex != 0 || x.NumRW != 0}, true
	case *proto.CommandBackupResponse:
		return verifReply{err: x.Error, hasData: len(x.Data) > 0}, true
	case *proto.CommandLoadResponse:
		return verifReply{err: x.Error}, true
	case *proto.CommandLoadChunkResponse:
		return verifReply{err: x.Error}, true
	case *proto.CommandRemoveNodeResponse:
		return verifReply{err: x.Error}, true
	case *proto.CommandNotifyResponse:
		return verifReply{err: x.Error}, true
	case *proto.CommandJoinResponse:
		return verifReply{err: x.Error, leader: x.Leader, hasData: x.Leader != ""}, true
	case *proto.CommandStepdownResponse:
		return verifReply{err: x.Error}, true
	case *proto.HighwaterMarkUpdateResponse:
		return verifReply{err: x.Error}, true
	case *proto.NodeMeta:
		return verifReply{hasData: true}, true
	}
	return verifReply{}, false
}

// verifResponseFor: the message a client expects in answer to a command of type t.
func verifResponseFor(t proto.Command_Type) pb.Message {
	switch t {
	case proto.Command_COMMAND_TYPE_GET_NODE_META:
		return &proto.NodeMeta{}
	case proto.Command_COMMAND_TYPE_EXECUTE:
		return &proto.CommandExecuteResponse{}
	case proto.Command_COMMAND_TYPE_QUERY:
		return &proto.CommandQueryResponse{}
	case proto.Command_COMMAND_TYPE_REQUEST:
		return &proto.CommandRequestResponse{}
	case proto.Command_COMMAND_TYPE_BACKUP, proto.Command_COMMAND_TYPE_BACKUP_STREAM:
		return &proto.CommandBackupResponse{}
	case proto.Command_COMMAND_TYPE_LOAD:
		return &proto.CommandLoadResponse{}
	case proto.Command_COMMAND_TYPE_LOAD_CHUNK:
		return &proto.CommandLoadChunkResponse{}
	case proto.Command_COMMAND_TYPE_REMOVE_NODE:
		return &proto.CommandRemoveNodeResponse{}
	case proto.Command_COMMAND_TYPE_NOTIFY:
		return &proto.CommandNotifyResponse{}
	case proto.Command_COMMAND_TYPE_JOIN:
		return &proto.CommandJoinResponse{}
	case proto.Command_COMMAND_TYPE_STEPDOWN:
		return &proto.CommandStepdownResponse{}
	case proto.Command_COMMAND_TYPE_HIGHWATER_MARK_UPDATE:
		return &proto.HighwaterMarkUpdateResponse{}
	}
	return nil
}

// verifGunzip: the content of one complete gzip stream.
func verifGunzip(b []byte) ([]byte, error) {
	zr, err := gzip.NewReader(bytes.NewReader(b))
	if err != nil {
		return nil, err
	}
	out, err := io.ReadAll(zr)
	if err != nil {
		return nil, err
	}
	if err := zr.Close(); err != nil {
		return nil, err
	}
	return out, nil
}

// verifDecodeReply reads the answer to a command of type t as a client does.
func verifDecodeReply(t proto.Command_Type, body []byte) (verifReply, bool) {
	if t == proto.Command_COMMAND_TYPE_BACKUP {
		plain, err := verifGunzip(body)
		if err != nil {
			return verifReply{}, false
		}
		body = plain
	}
	if verifSymbolic() {
		e := verifEntryOf(body)
		if e == nil || len(body) != verifTokLen || e.tag != verifTagOf(verifResponseFor(t)) {
			return verifReply{}, false
		}
		return e.reply, true
	}
	m := verifResponseFor(t)
	if m == nil || pb.Unmarshal(body, m) != nil {
		return verifReply{}, false
	}
	return verifReplyOf(m)
}

// ---------------------------------------------------------------------------
// the oracle

// verifJudgeAlloc: read-buffer sizes are judged by C35, not here.
func verifJudgeAlloc(c *verifConn, n uint64) {}

// verifGranted: a check of perm for the request's own user and password was made, and granted,
// among the first upto log entries of request i.
func (w *verifWorld) verifGranted(r *verifReq, perm string, upto int) bool {
	g := false
	for k := 0; k < upto; k++ {
		e := w.evs[k]
		if e.what == "aa" && e.req == r.idx && e.perm == perm && e.user == r.user && e.pass == r.pass {
			g = verifOr(g, e.ok)
		}
	}
	return g
}

// verifAuthorized: the request's permission requirement is met by the granted checks made before
// log position upto.
func (w *verifWorld) verifAuthorized(r *verifReq, upto int) bool {
	if r.typ == proto.Command_COMMAND_TYPE_JOIN {
		full := w.verifGranted(r, verifPermJoin, upto)
		ro := verifOr(w.verifGranted(r, verifPermJoinRO, upto), w.verifGranted(r, verifPermJoinRR, upto))
		// a voter needs "join"; a read-only node needs one of the read-only permissions ("join"
		// is documented as permission to join in general and is accepted here too)
		return verifOr(verifAnd(r.voter, full), verifAnd(!r.voter, verifOr(ro, full)))
	}
	ok := true
	for _, p := range verifRequired(r.typ) {
		ok = verifAnd(ok, w.verifGranted(r, p, upto))
	}
	return ok
}

// verifCheckRequest: everything the service did for request r.
func (w *verifWorld) verifCheckRequest(r *verifReq, panicked bool) {
	needsPerm := verifRequired(r.typ) != nil || r.typ == proto.Command_COMMAND_TYPE_JOIN
	want := verifEffectOf(r.typ)
	stream := r.typ == proto.Command_COMMAND_TYPE_BACKUP_STREAM

	// 1. permission checks: only for the request's own credentials, only permissions of its type
	for _, e := range w.evs {
		if e.what != "aa" || e.req != r.idx {
			continue
		}
		verifAssert("C18-check-uses-the-requests-user", e.user == r.user)
		verifAssert("C18-check-uses-the-requests-password", e.pass == r.pass)
		verifAssert("C18-check-uses-a-permission-of-the-command", verifMayCheck(r.typ, e.perm))
	}

	// 2. effects: the one call the command stands for, only with its payload, only when authorized
	effects := 0
	for k, e := range w.evs {
		if e.req != r.idx || !verifIsEffect(e.what) {
			continue
		}
		effects++
		verifAssert("C18-effect-belongs-to-the-command", e.what == want)
		if needsPerm {
			authorized := w.verifAuthorized(r, k)
			if !authorized {
				if stream && r.present {
					// recorded defect: after the "unauthorized" reply the stream case falls through
					verifFinding("C18-backup-stream-after-unauthorized")
				}
			}
			verifAssert("C18-effect-only-after-granted-check", authorized)
		}
		verifAssert("C18-effect-only-with-its-payload", r.present)
		verifAssert("C18-effect-gets-the-payload", e.nn)
		switch e.what {
		case "mgr.Remove", "mgr.Notify":
			verifAssert("C18-effect-gets-the-peers-arguments", e.id == r.nodeID)
		case "mgr.Join":
			verifAssert("C18-effect-gets-the-peers-arguments", verifAnd(e.id == r.nodeID, e.flag == r.voter))
		case "mgr.Stepdown":
			verifAssert("C18-effect-gets-the-peers-arguments", verifAnd(e.id == r.nodeID, e.flag == r.wait))
		}
	}
	verifAssert("C18-at-most-one-effect-per-request", effects <= 1)

	// 3. the wire: one length-prefixed reply; for an authorized stream the backup follows it
	out := w.written(r.idx)
	if panicked && stream && !r.present {
		// BACKUP_STREAM without a BackupRequest: the handler answers "BackupRequest is nil" and then
		// dereferences the nil request (Go panic). That crash is recorded under C35; here only: it
		// did nothing to the database.
		verifAssert("C18-no-effect-before-the-crash", effects == 0)
		verifReach("stream-without-request-crashes")
		return
	}
	verifAssert("C18-no-panic", !panicked)
	if verifResponseFor(r.typ) == nil {
		verifAssert("C18-unknown-command-is-not-answered", len(out) == 0)
		verifAssert("C18-unknown-command-does-nothing", effects == 0)
		return
	}
	if r.typ == proto.Command_COMMAND_TYPE_GET_NODE_META && len(out) == 0 {
		return // commit index not available: connection closed without an answer
	}
	verifAssert("C18-reply-has-a-length-prefix", len(out) >= 8)
	n := binary.LittleEndian.Uint64(out[:8])
	verifAssert("C18-reply-is-complete", uint64(len(out)-8) >= n)
	body, rest := out[8:8+int(n)], out[8+int(n):]
	rep, ok := verifDecodeReply(r.typ, body)
	verifAssert("C18-reply-decodes", ok)

	authorized := w.verifAuthorized(r, len(w.evs))
	if needsPerm && r.present {
		if !authorized {
			verifAssert("C18-refusal-says-unauthorized", rep.err == "unauthorized")
			verifAssert("C18-refusal-carries-no-data", !rep.hasData)
			if len(rest) != 0 && stream {
				verifFinding("C18-backup-stream-after-unauthorized")
			}
			verifAssert("C18-nothing-follows-a-refusal", len(rest) == 0)
			verifAssert("C18-refused-request-does-nothing", effects == 0)
			verifReach("refused")
			return
		}
		verifAssert("C18-authorized-request-is-carried-out", effects == 1)
		verifAssert("C18-authorized-request-is-not-refused", rep.err != "unauthorized")
		verifReach("carried-out")
	}
	if needsPerm && !r.present {
		verifAssert("C18-request-without-payload-is-refused", rep.err != "")
		verifAssert("C18-request-without-payload-does-nothing", effects == 0)
		verifAssert("C18-request-without-payload-discloses-nothing", !rep.hasData)
	}
	if stream && r.present && effects == 1 {
		// authorized stream: what follows the reply is what the database wrote, nothing else
		verifAssert("C18-stream-is-the-backup", verifOr(len(rest) == 0, bytes.Equal(rest, verifBackupImage)))
		verifReach("streamed")
		return
	}
	verifAssert("C18-one-reply-per-request", len(rest) == 0)
}

// verifRunConn: serve the connection, then judge every request.
func verifRunConn(s *Service, w *verifWorld) {
	panicked := verifServe(s, w.conn)
	handled := w.conn.cur()
	for _, r := range w.reqs {
		if r.idx > handled {
			break
		}
		last := r.idx == handled
		w.verifCheckRequest(r, panicked && last)
	}
	// nothing is done on behalf of nobody
	for _, e := range w.evs {
		if e.req < 0 {
			verifAssert("C18-nothing-before-the-first-request", e.what == "close")
		}
	}
	if !panicked {
		verifAssert("C18-connection-closed-at-the-end", w.conn.closed >= 1)
	}
}

// ---------------------------------------------------------------------------
// entries

// VerifC18Request: one request, every command type x every payload kind, with or without
// credentials, every verdict of the credential store.
func VerifC18Request() {
	t := verifChoice("type", verifTypeChoices)
	k := verifChoice("kind", verifKinds)
	cred := verifChoice("credentials", 2) == 1
	r := verifNewReq(0, t, k, cred)
	s, w := verifNewWorld([]*verifReq{r}, io.EOF)
	verifRunConn(s, w)
	verifAssert("C18-request-was-read", w.conn.cur() == 0)
}

// verifFirstMenu (quick tier): every command type that needs a permission with its own payload,
// EXECUTE without payload, the zero type and an undefined type.
var verifFirstMenu = [][2]int{
	{2, verifKExecute}, {3, verifKQuery}, {9, verifKExecuteQuery}, {4, verifKBackup}, {5, verifKLoad},
	{6, verifKRemove}, {7, verifKNotify}, {8, verifKJoin}, {12, verifKStepdown}, {13, verifKHWM},
	{2, verifKNone}, {0, verifKNone}, {14, verifKExecute},
}

// verifSecondMenu (quick tier): a database command, the gzip reply, the voter-dependent one, the
// stream, an unknown type.
var verifSecondMenu = [][2]int{
	{2, verifKExecute}, {4, verifKBackup}, {8, verifKJoin}, {11, verifKBackup}, {0, verifKQuery},
}

func verifMenuReq(idx int, menu [][2]int, full bool) *verifReq {
	if full {
		return verifNewReq(idx, verifChoice(verifName("type", idx), verifTypeChoices), verifChoice(verifName("kind", idx), verifKinds), true)
	}
	m := menu[verifChoice(verifName("menu", idx), len(menu))]
	return verifNewReq(idx, m[0], m[1], true)
}

// VerifC18Conn: two requests on one connection (state carried from one to the next: buffers, error
// variables, a refusal followed by another request).
func VerifC18Conn() {
	// thorough tier: one of the two requests ranges over every type x every payload kind
	full := -1
	if verifTier() == 1 {
		full = verifChoice("full-side", 2)
	}
	r0 := verifMenuReq(0, verifFirstMenu, full == 0)
	r1 := verifMenuReq(1, verifSecondMenu, full == 1)
	s, w := verifNewWorld([]*verifReq{r0, r1}, io.EOF)
	w.noFail = verifTier() == 0
	verifRunConn(s, w)
	// the first request ends the connection only in these cases
	if r0.typ != proto.Command_COMMAND_TYPE_BACKUP_STREAM && r0.typ != proto.Command_COMMAND_TYPE_GET_NODE_META {
		verifAssert("C18-second-request-was-read", w.conn.cur() == 1)
		verifReach("two-requests")
	}
}

// VerifC18Twin: same set-up; the final claim is false (authorized requests ARE carried out).
func VerifC18Twin() {
	k := verifKExecute
	if verifChoice("payload", 2) == 0 {
		k = verifKNone
	}
	r := verifNewReq(0, 2, k, true)
	s, w := verifNewWorld([]*verifReq{r}, io.EOF)
	verifRunConn(s, w)
	for _, e := range w.evs {
		verifAssert("C18-twin-nothing-ever-happens", !verifIsEffect(e.what))
	}
}

// ---------------------------------------------------------------------------
// codec algebra: the models that replace protobuf and gzip in the symbolic run (spec "models").
// None of this runs natively.
//
// An encoded message is the 4-byte token {magic, magic, id, type tag}; verifEncs[id] remembers what
// was encoded. Decoding a Command hands back the request the harness built (type, payload wrapper,
// credentials); any other bytes do not parse; zero bytes are the empty message.

const (
	verifMagic0 = 0xF5
	verifMagic1 = 0xC9
	verifTagGz  = 0x7A
	verifGzEnd  = 0xE0
	verifTokLen = 4
)

type verifEnc struct {
	tag   byte
	cmd   *proto.Command
	reply verifReply
}

var verifEncs []*verifEnc

var verifErrCodec = errors.New("proto: cannot parse invalid wire-format data")

func verifTagOf(m pb.Message) byte {
	switch m.(type) {
	case *proto.Command:
		return 1
	case *proto.NodeMeta:
		return 2
	case *proto.CommandExecuteResponse:
		return 3
	case *proto.CommandQueryResponse:
		return 4
	case *proto.CommandRequestResponse:
		return 5
	case *proto.CommandBackupResponse:
		return 6
	case *proto.CommandLoadResponse:
		return 7
	case *proto.CommandLoadChunkResponse:
		return 8
	case *proto.CommandRemoveNodeResponse:
		return 9
	case *proto.CommandNotifyResponse:
		return 10
	case *proto.CommandJoinResponse:
		return 11
	case *proto.CommandStepdownResponse:
		return 12
	case *proto.HighwaterMarkUpdateResponse:
		return 13
	}
	return 0
}

func verifEntryOf(b []byte) *verifEnc {
	if len(b) < verifTokLen || b[0] != verifMagic0 || b[1] != verifMagic1 || int(b[2]) >= len(verifEncs) || verifEncs[b[2]].tag != b[3] {
		return nil
	}
	return verifEncs[b[2]]
}

func verifNewEnc(e *verifEnc) []byte {
	id := len(verifEncs)
	if id >= verifGzEnd {
		panic("verif: too many encoded forms")
	}
	verifEncs = append(verifEncs, e)
	return []byte{verifMagic0, verifMagic1, byte(id), e.tag}
}

func verifPbMarshal(m pb.Message) ([]byte, error) {
	tag := verifTagOf(m)
	if tag == 0 {
		return nil, errors.New("verif: message type outside the codec model")
	}
	if c, ok := m.(*proto.Command); ok {
		return verifNewEnc(&verifEnc{tag: tag, cmd: c}), nil
	}
	rep, _ := verifReplyOf(m)
	return verifNewEnc(&verifEnc{tag: tag, reply: rep}), nil
}

func verifPbUnmarshal(b []byte, m pb.Message) error {
	if len(b) == 0 {
		return nil // the empty encoding: every field keeps its zero value
	}
	c, ok := m.(*proto.Command)
	if !ok {
		return errors.New("verif: only commands are decoded in the codec model")
	}
	e := verifEntryOf(b)
	if e == nil || len(b) != verifTokLen || e.tag != 1 {
		return verifErrCodec
	}
	c.Type, c.Request, c.Credentials = e.cmd.Type, e.cmd.Request, e.cmd.Credentials
	return nil
}

// gzip writer model: the header token goes out with the first Write, content and end marker with Close.
type verifGzW struct {
	zw      *gzip.Writer
	dst     io.Writer
	pending []byte
	header  bool
	closed  bool
}

var verifGzWs []*verifGzW

func verifGzWOf(z *gzip.Writer) *verifGzW {
	for _, w := range verifGzWs {
		if w.zw == z {
			return w
		}
	}
	panic("verif: gzip.Writer not created by NewWriterLevel")
}

func verifGzNewWriterLevel(w io.Writer, level int) (*gzip.Writer, error) {
	if level < gzip.HuffmanOnly || level > gzip.BestCompression {
		return nil, errors.New("gzip: invalid compression level")
	}
	zw := new(gzip.Writer)
	verifGzWs = append(verifGzWs, &verifGzW{zw: zw, dst: w})
	return zw, nil
}

func verifGzWriterWrite(z *gzip.Writer, p []byte) (int, error) {
	w := verifGzWOf(z)
	if w.closed {
		return 0, errors.New("gzip: write to closed writer")
	}
	if !w.header {
		w.header = true
		if _, err := w.dst.Write(verifNewEnc(&verifEnc{tag: verifTagGz})); err != nil {
			return 0, err
		}
	}
	w.pending = append(w.pending, p...)
	return len(p), nil
}

func verifGzWriterClose(z *gzip.Writer) error {
	w := verifGzWOf(z)
	if w.closed {
		return nil
	}
	w.closed = true
	if !w.header {
		w.header = true
		if _, err := w.dst.Write(verifNewEnc(&verifEnc{tag: verifTagGz})); err != nil {
			return err
		}
	}
	_, err := w.dst.Write(append(append([]byte{}, w.pending...), verifGzEnd))
	return err
}

type verifGzR struct {
	zr   *gzip.Reader
	data []byte
	off  int
	end  error
}

var verifGzRs []*verifGzR

func verifGzROf(z *gzip.Reader) *verifGzR {
	for _, r := range verifGzRs {
		if r.zr == z {
			return r
		}
	}
	panic("verif: gzip.Reader not created by NewReader")
}

func verifGzNewReader(r io.Reader) (*gzip.Reader, error) {
	all, err := io.ReadAll(r)
	if err != nil {
		return nil, err
	}
	if len(all) == 0 {
		return nil, io.EOF
	}
	if len(all) < verifTokLen {
		return nil, io.ErrUnexpectedEOF
	}
	if e := verifEntryOf(all); e == nil || e.tag != verifTagGz {
		return nil, gzip.ErrHeader
	}
	st := &verifGzR{zr: new(gzip.Reader), data: all[verifTokLen:], end: io.ErrUnexpectedEOF}
	if k := len(st.data); k > 0 && st.data[k-1] == verifGzEnd {
		st.data, st.end = st.data[:k-1], io.EOF
	}
	verifGzRs = append(verifGzRs, st)
	return st.zr, nil
}

func verifGzReaderRead(z *gzip.Reader, p []byte) (int, error) {
	r := verifGzROf(z)
	if r.off >= len(r.data) {
		return 0, r.end
	}
	if len(p) == 0 {
		return 0, nil
	}
	n := copy(p, r.data[r.off:])
	r.off += n
	return n, nil
}

func verifGzReaderClose(z *gzip.Reader) error { return nil }
