package cluster

// Native driver for C18 (not part of the symbolic run): a real Service behind a real TCP listener,
// a deny-all credential store and a raw socket that keeps reading after the error header - which
// the regular client never does. Run with /verif/harness/C18/native.sh.
//
// The test FAILS when anything follows the "unauthorized" reply (the recorded defect
// C18-backup-stream-after-unauthorized); after a repair it is a regression test.

import (
	"bytes"
	"encoding/binary"
	"io"
	"net"
	"testing"
	"time"

	"github.com/rqlite/rqlite/v10/cluster/proto"
	command "github.com/rqlite/rqlite/v10/command/proto"
	pb "google.golang.org/protobuf/proto"
)

type verifDenyAll struct{ asked []string }

func (d *verifDenyAll) AA(username, password, perm string) bool {
	d.asked = append(d.asked, perm)
	return false
}

func TestVerifC18NativeRawSocket(t *testing.T) {
	ln, err := net.Listen("tcp", "127.0.0.1:0")
	if err != nil {
		t.Fatal(err)
	}
	w := &verifWorld{hwm: make(chan uint64, 1), noFail: true}
	w.conn = &verifConn{w: w} // only used by the models to tag their log entries
	creds := &verifDenyAll{}
	s := New(ln, &verifDB{w: w}, &verifMgr{w: w}, creds)
	if err := s.Open(); err != nil {
		t.Fatal(err)
	}
	defer s.Close()

	conn, err := net.Dial("tcp", ln.Addr().String())
	if err != nil {
		t.Fatal(err)
	}
	defer conn.Close()
	cmd := &proto.Command{
		Type:        proto.Command_COMMAND_TYPE_BACKUP_STREAM,
		Request:     &proto.Command_BackupRequest{BackupRequest: &command.BackupRequest{}},
		Credentials: &proto.Credentials{Username: "mallory", Password: "guess"},
	}
	body, err := pb.Marshal(cmd)
	if err != nil {
		t.Fatal(err)
	}
	if _, err := conn.Write(append(verifPrefix(uint64(len(body))), body...)); err != nil {
		t.Fatal(err)
	}
	conn.(*net.TCPConn).CloseWrite()
	conn.SetReadDeadline(time.Now().Add(5 * time.Second))
	all, _ := io.ReadAll(conn)
	if len(all) < 8 {
		t.Fatalf("no reply: %d bytes", len(all))
	}
	n := binary.LittleEndian.Uint64(all[:8])
	resp := &proto.CommandBackupResponse{}
	if err := pb.Unmarshal(all[8:8+n], resp); err != nil {
		t.Fatal(err)
	}
	rest := all[8+n:]
	t.Logf("permissions asked: %v; reply error %q; %d bytes follow the reply", creds.asked, resp.Error, len(rest))
	if resp.Error != "unauthorized" {
		t.Fatalf("expected an unauthorized reply, got %q", resp.Error)
	}
	backups := 0
	for _, e := range w.evs {
		if e.what == "db.Backup" {
			backups++
		}
	}
	if backups != 0 || len(rest) != 0 {
		t.Errorf("DEFECT: after \"unauthorized\" the service called db.Backup %d time(s) and sent %d more bytes; contains the database image: %v",
			backups, len(rest), bytes.Contains(rest, verifBackupImage))
	}
}
