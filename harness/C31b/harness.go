package store

import (
	"time"

	"github.com/rqlite/rqlite/v10/internal/rsync"
)

// =============================================================================================
// C31 (second part): the REAL holders of the snapshot gate during start-up and shutdown.
//
// harness/C31 decides Close's wait for the gate against a modelled holder of every duration. Here
// the holder is the code that really takes the gate when a node starts: the start-up integrity
// check of (*Store).Open (gate owner "check-clean-snapshot", released by a goroutine when the
// checksum of the SQLite file has been compared) - and (*Store).Close itself (owner "close").
//
// A node is started for the first time, goes through a short history (writes, snapshots, shutdown
// with or without snapshot-on-close), something may happen to the clean-snapshot marker while it
// is down, the operator may place a peers file, and the node is opened again with the real
// (*Store).Open over the world of harness/C33b (world.go). Every start-up situation is produced:
// marker absent / unreadable / vouching for the file with a checksum / without a checksum (format
// of older releases) / with another checksum (the mismatch handler) / not vouching (size,
// modification time); empty snapshot store; with and without a peers file (usable or not).
//
// Oracle, from the property statement ("a startup integrity check holds the gate ... closing waits
// for that operation and proceeds promptly once it finishes; closing fails only if the operation is
// still running after the shutdown wait limit of about ten seconds"):
//   - once Open has returned and everything it started has come to rest, nobody holds the gate
//     (the start-up check is finished, so it holds the gate no longer);
//   - Close then succeeds, within a second (not after the ten seconds of the wait limit), the node
//     is closed and has released what it held;
//   - after Close has returned, nobody holds the gate (Close is a holder too: the same Store object
//     can be opened again and its start-up check gets the gate);
//   - VerifC31bDuring (engine only): Close is called the moment Open has returned while the
//     start-up check still reads the file for d of model time. d below the limit: Close succeeds no
//     later than a second after the check is done. Close fails only with the gate-timeout error,
//     only for d at or beyond the limit, only after waiting that long - and a second Close after the
//     check is done succeeds promptly.
// "About ten seconds" is read as in harness/C31: must succeed when the holder is done before 9 s,
// may fail only if it still holds at 9 s; prompt = within 1 s.
// =============================================================================================

type vcBounds struct {
	maxOps   int
	ops      []int
	tampers  []int
	peers    []int
	closeOpt []int
	rounds   int             // (while down, open, close) rounds after the first shutdown
	crc      []time.Duration // engine only: how long the checksum calculation takes; Close is called at once after Open
	failures int             // engine only: the k-th call of the environment during Open fails
	sameObj  bool            // later rounds may reopen the same Store object
}

const vcSec = int64(time.Second)

func (w *voWorld) choose(name string, n int) int {
	v := verifChoice(name, n)
	w.choices = append(w.choices, name+"="+voItoa(v))
	return v
}

func (w *voWorld) pick(name string, from []int) int {
	return from[w.choose(name, len(from))]
}

// vcAtRest: everything Open started has come to rest.
func vcAtRest(s *Store) {
	verifSettle()
	if !verifSymbolic() {
		// natively "at rest" cannot be observed; the start-up check of the replay's small files
		// takes milliseconds: it gets two seconds
		for i := 0; i < 200 && s.snapshotCAS.Owner() != ""; i++ {
			time.Sleep(10 * time.Millisecond)
		}
	}
}

func vcGateFree(id string, s *Store) {
	owner := s.snapshotCAS.Owner()
	if owner != "" {
		println("verif C31b: snapshot gate held by", owner)
	}
	verifAssert(id, owner == "")
}

// vcClose: the real Close on a node whose gate holders are done.
func vcClose(w *voWorld, s *Store, keepListener bool) {
	s.NoSnapshotOnClose = true
	w.raftShutdowns = 0
	t0 := time.Now()
	err := s.Close(true)
	el := int64(time.Since(t0))
	if err != nil {
		println("verif C31b: Close failed:", err.Error())
	}
	verifAssert("C31-close-succeeds-once-the-gate-holder-is-done", err == nil)
	verifAssert("C31-close-proceeds-promptly-once-the-gate-holder-is-done", el <= vcSec)
	verifAssert("C31-closed-node-is-closed", !s.open.Is())
	if verifSymbolic() {
		verifAssert("C31-closed-node-released-everything", w.everythingReleased())
		verifAssert("C31-environment-used-sensibly", w.badCalls == 0)
	}
	vcGateFree("C31-close-releases-the-gate", s)
	w.closed(keepListener)
}

// vcOpenAndClose: one open of an existing data directory and the close that follows.
func vcOpenAndClose(w *voWorld, b vcBounds, p int, reuse *Store) *Store {
	vouched := w.markerVouchesForMainFile()
	markerThere := w.exists(w.markerPath())
	record, _ := w.markerRecord()
	fileSum, _ := w.mainFileChecksum()
	snaps := w.snapshotCount()
	// four or more snapshots make the snapshot store reap in the background: outside the bounds
	verifAssume(snaps < 3)
	peers := w.pick(verifName("peers-file-", p), b.peers)

	s := reuse
	if s == nil {
		s = w.newStore()
	} else {
		verifReach("same-store-object-opened-again")
	}
	w.setPeers(peers)
	w.s = s
	w.crcRuns, w.crcMismatch = 0, false
	if len(b.crc) > 0 {
		w.crcTakes = b.crc[w.choose(verifName("checksum-takes-", p), len(b.crc))]
	}
	failurePoints := b.failures
	if peers == voPeersNone {
		failurePoints = b.failures / 2
	}
	if b.failures > 0 {
		w.failAt = 1 + w.choose(verifName("failing-call-", p), failurePoints)
		w.injecting, w.envCalls, w.injected = true, 0, ""
	}
	skippedBefore := s.numSnapshotsSkipped.Load() // (the counter of a Store object opened again goes on)
	err := s.Open()
	w.injecting = false

	if len(b.crc) > 0 && err == nil {
		vcCloseDuringCheck(w, s)
		return nil
	}

	vcAtRest(s)
	// the start-up check is finished (or was never started): it holds the gate no longer
	vcGateFree("C31-startup-check-holds-the-gate-only-while-it-runs", s)

	// which situation was this? (markers only; whether the fast path is the right decision is C33's business)
	fast := s.numSnapshotsSkipped.Load() > skippedBefore
	switch {
	case fast && record.CRC32 == 0:
		verifReach("startup-check-marker-without-checksum")
	case fast && record.CRC32 != fileSum:
		verifReach("startup-check-checksum-mismatch-handler")
		verifAssert("C31-harness-mismatch-seen", w.crcMismatch)
	case fast:
		verifReach("startup-check-checksum-matches")
		verifAssert("C31-harness-no-mismatch-seen", !w.crcMismatch)
	case snaps == 0:
		verifReach("no-startup-check-empty-snapshot-store")
	case !markerThere:
		verifReach("no-startup-check-marker-absent")
	case peers != voPeersNone:
		verifReach("no-startup-check-peers-file")
	case !vouched:
		verifReach("no-startup-check-marker-does-not-vouch")
	}
	if verifSymbolic() && fast && record.CRC32 != 0 {
		verifAssert("C31-harness-checksum-calculated-by-the-startup-check", w.crcRuns == 1)
	}

	if err != nil {
		// Open refused (unusable peers file) or failed (injected failure): the node is not open,
		// closing it is immediate and not an error; nothing holds the gate
		if w.injected != "" {
			verifReach("open-failed-on-an-injected-failure")
			if fast {
				verifReach("open-failed-after-the-startup-check-took-the-gate")
			}
		} else {
			verifReach("open-refused")
			verifAssert("C31-harness-only-an-unusable-peers-file-is-refused", peers == voPeersNoVoter || peers == voPeersGarbage)
		}
		t0 := time.Now()
		cerr := s.Close(true)
		verifAssert("C31-closing-a-node-that-did-not-open-is-immediate", cerr == nil && int64(time.Since(t0)) <= vcSec)
		w.abandon()
		w.removePeers()
		return nil
	}
	if b.failures > 0 && w.injected == "" {
		verifAssert("C31-harness-every-call-of-the-environment-can-be-chosen", w.envCalls <= failurePoints)
	}
	w.started(s)
	vcClose(w, s, b.sameObj)
	return s
}

// vcCloseDuringCheck (engine only): Close is called while the start-up check may still be reading
// the file.
func vcCloseDuringCheck(w *voWorld, s *Store) {
	s.NoSnapshotOnClose = true
	t0 := time.Now()
	err := s.Close(true)
	el := int64(time.Since(t0))
	// by now the start-up check - if there is one - has started its calculation: it is busy (and
	// needs the gate) until the environment has delivered the checksum
	hold := int64(0)
	if w.crcBusyUntil.After(t0) {
		hold = int64(w.crcBusyUntil.Sub(t0))
		verifReach("close-called-while-the-startup-check-runs")
	} else {
		verifReach("close-called-with-no-checksum-to-wait-for")
	}
	if hold < 9*vcSec {
		verifAssert("C31-close-proceeds-when-the-startup-check-finishes-in-time", err == nil)
		verifAssert("C31-close-proceeds-promptly-after-the-startup-check", el <= hold+vcSec)
	}
	if err == nil {
		verifAssert("C31-close-waited-for-the-startup-check", el >= hold)
		vcGateFree("C31-close-releases-the-gate", s)
		return
	}
	verifReach("close-gave-up-on-the-startup-check")
	verifAssert("C31-close-fails-only-after-the-limit", hold >= 9*vcSec && el >= 9*vcSec)
	verifAssert("C31-close-reports-the-gate-timeout", err == rsync.ErrCASConflictTimeout)
	verifAssert("C31-refused-close-leaves-the-node-open", s.open.Is())
	verifAssert("C31-refused-close-does-not-take-the-gate-away", s.snapshotCAS.Owner() == "check-clean-snapshot")
	// the check finishes; from then on closing works
	time.Sleep(time.Duration(hold))
	vcAtRest(s)
	vcGateFree("C31-startup-check-holds-the-gate-only-while-it-runs", s)
	w.started(s)
	vcClose(w, s, false)
}

// vcRun: first start, history, shutdown, then b.rounds rounds of (while down, open, close).
func vcRun(w *voWorld, entry string, b vcBounds) {
	verifPanicsAreViolations()
	w.entry = entry

	s := w.newStore()
	w.s = s
	err := s.Open()
	vcAtRest(s)
	verifAssert("C31-harness-first-open-succeeds", err == nil)
	vcGateFree("C31-startup-check-holds-the-gate-only-while-it-runs", s)
	w.bootstrap(s)

	tag := 1
	n := w.choose("operations", b.maxOps+1)
	for i := 0; i < n; i++ {
		switch w.pick(verifName("operation-", i), b.ops) {
		case voOpWrite:
			w.write(tag)
			tag++
		case voOpNoop:
			w.noop()
		case voOpRewrite:
			w.rewrite()
		case voOpSnapKeep1:
			w.snapshotNow(1)
		case voOpSnapKeepAll:
			w.snapshotNow(0)
		}
	}
	var reuse *Store
	if w.pick("no-snapshot-on-close", b.closeOpt) == 1 {
		// a shutdown without snapshot-on-close is the Close this property is about
		verifReach("first-shutdown-is-the-real-close")
		vcClose(w, s, b.sameObj)
		if b.sameObj {
			reuse = s
		}
	} else {
		w.shutdown(false)
	}

	for p := 0; p < b.rounds; p++ {
		w.tamperKind = w.pick(verifName("while-down-", p), b.tampers)
		verifAssume(w.tamper(w.tamperKind))
		if reuse != nil && w.choose(verifName("same-store-object-", p), 2) == 0 {
			w.dropListener()
			reuse = nil
		}
		closed := vcOpenAndClose(w, b, p, reuse)
		if closed == nil {
			break // the path ended otherwise (Open refused / failed, Close placed during the check)
		}
		reuse = nil
		if b.sameObj {
			reuse = closed
		}
	}
}

var (
	vcTampersQuick = []int{voTamperNone, voTamperNoMarker, voTamperGarbageMarker, voTamperCRC0, voTamperWrongCRC, voTamperSize, voTamperMtime}
	vcTampersAll   = []int{voTamperNone, voTamperNoMarker, voTamperGarbageMarker, voTamperCRC0, voTamperWrongCRC, voTamperSize, voTamperMtime, voTamperCheckpointSameTime, voTamperCheckpoint}
)

// VerifC31bStartup: every start-up situation, then Close.
func VerifC31bStartup() {
	b := vcBounds{rounds: 1, maxOps: 1, ops: []int{voOpWrite, voOpSnapKeep1}, tampers: vcTampersQuick,
		peers: []int{voPeersNone, voPeersSelf, voPeersGarbage}, closeOpt: []int{0, 1}}
	if verifTier() == 1 {
		b.maxOps = 2
		b.ops = []int{voOpWrite, voOpSnapKeep1, voOpSnapKeepAll, voOpNoop}
		b.tampers = vcTampersAll
		b.peers = []int{voPeersNone, voPeersSelf, voPeersThree, voPeersNoVoter, voPeersGarbage}
	}
	w := voNewWorld()
	defer w.cleanup()
	vcRun(w, "VerifC31bStartup", b)
}

// VerifC31bAgain: two rounds - the Close under test is what the next start-up finds; the same Store
// object may be opened again (Close's own hold of the gate must have ended).
func VerifC31bAgain() {
	b := vcBounds{rounds: 2, maxOps: 1, ops: []int{voOpWrite}, tampers: []int{voTamperNone, voTamperCRC0, voTamperSize},
		peers: []int{voPeersNone}, closeOpt: []int{0, 1}, sameObj: true}
	if verifTier() == 1 {
		b.maxOps = 2
		b.ops = []int{voOpWrite, voOpSnapKeep1}
		b.tampers = []int{voTamperNone, voTamperNoMarker, voTamperCRC0, voTamperWrongCRC, voTamperSize}
		b.peers = []int{voPeersNone, voPeersSelf}
	}
	w := voNewWorld()
	defer w.cleanup()
	vcRun(w, "VerifC31bAgain", b)
}

// VerifC31bDuring (engine only): Close placed while the start-up check still runs, for checksum
// calculations from 0 ms to beyond the limit.
func VerifC31bDuring() {
	b := vcBounds{rounds: 1, maxOps: 1, ops: []int{voOpWrite}, tampers: []int{voTamperNone, voTamperCRC0, voTamperWrongCRC, voTamperSize},
		peers: []int{voPeersNone}, closeOpt: []int{0},
		crc: []time.Duration{0, 5 * time.Millisecond, 300 * time.Millisecond, 12 * time.Second}}
	if verifTier() == 1 {
		b.ops = []int{voOpWrite, voOpSnapKeep1}
		b.tampers = vcTampersQuick
		b.closeOpt = []int{0, 1}
		b.crc = []time.Duration{0, 1, 5 * time.Millisecond, 10 * time.Millisecond, 300 * time.Millisecond, 5 * time.Second, 8900 * time.Millisecond,
			9500 * time.Millisecond, 10 * time.Second, 12 * time.Second}
	}
	w := voNewWorld()
	defer w.cleanup()
	vcRun(w, "VerifC31bDuring", b)
}

// VerifC31bFailedOpen (engine only): one call of the environment fails during Open - also after the
// start-up check has taken the gate. The check still lets go of the gate when it is done.
func VerifC31bFailedOpen() {
	b := vcBounds{rounds: 1, maxOps: 1, ops: []int{voOpWrite}, tampers: []int{voTamperNone, voTamperCRC0},
		peers: []int{voPeersNone}, closeOpt: []int{0}, failures: 48}
	if verifTier() == 1 {
		b.maxOps = 2
		b.ops = []int{voOpWrite, voOpSnapKeep1}
		b.tampers = []int{voTamperNone, voTamperCRC0, voTamperWrongCRC, voTamperSize}
		b.peers = []int{voPeersNone, voPeersSelf}
		b.closeOpt = []int{0, 1}
	}
	w := voNewWorld()
	defer w.cleanup()
	vcRun(w, "VerifC31bFailedOpen", b)
}

// Vacuity twin: claims that the start-up check still holds the gate when everything is at rest.
func VerifC31bTwin() {
	w := voNewWorld()
	defer w.cleanup()
	verifPanicsAreViolations()
	s := w.newStore()
	w.s = s
	verifAssume(s.Open() == nil)
	vcAtRest(s)
	w.bootstrap(s)
	w.write(1)
	w.shutdown(false)
	s = w.newStore()
	w.s = s
	verifAssume(s.Open() == nil)
	vcAtRest(s)
	verifAssume(s.numSnapshotsSkipped.Load() > 0)
	verifAssert("twin", s.snapshotCAS.Owner() != "")
}
