#!/bin/bash
# Builds the symgo engine from files on disk only (offline).
set -e
cd "$(dirname "$0")"
export GOFLAGS=-mod=mod GOPROXY=off GOSUMDB=off GOTOOLCHAIN=local
export PATH=/opt/veriftools/go1.26.8/bin:$PATH
mkdir -p bin evidence
(cd engine && go build -o ../bin/symgo ./cmd/symgo)
echo "setup ok"
