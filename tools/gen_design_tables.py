#!/usr/bin/env python3
"""Regenerates the generated regions of /verif/DESIGN.md (between <!-- GEN:x --> and <!-- /GEN:x -->)
from the files the checks actually use: harness/*/spec.json, known_findings.json, seeded/*/meta.json,
tools/claims.json. Run after changing any of them."""
import json, glob, os, re, sys

V = os.path.dirname(os.path.dirname(os.path.abspath(__file__)))


def esc(s):
    return str(s).replace("|", "/").replace("\n", " ").strip()


def short(s, n):
    s = esc(s)
    return s if len(s) <= n else s[: n - 1] + "…"


def per_property():
    out = []
    claims = json.load(open(f"{V}/tools/claims.json"))
    claimed = claims.get("claimed", claims)
    dirs = sorted(glob.glob(f"{V}/harness/C*/"))
    by = {}
    for d in dirs:
        if not os.path.exists(d + "spec.json"):
            continue
        s = json.load(open(d + "spec.json"))
        by.setdefault(s["property"], []).append((os.path.basename(d.rstrip("/")), s))
    for pid in sorted(by):
        out.append(f"#### {pid}" + ("" if pid in claimed else " (not claimed)"))
        for name, s in by[pid]:
            ents = []
            for e in s["entries"]:
                t = e.get("tier", "")
                extra = []
                if t:
                    extra.append(t + " only")
                if e.get("twin"):
                    extra.append("twin")
                if e.get("max_preempt", 0) and e.get("max_preempt", 0) > 0:
                    extra.append(f"preempt≤{e['max_preempt']}")
                if e.get("unwind"):
                    extra.append(f"unwind {e['unwind']}")
                ents.append(e["name"] + (" (" + ", ".join(extra) + ")" if extra else ""))
            # the same entry may be listed once per tier
            seen, ents2 = set(), []
            for x in ents:
                if x not in seen:
                    seen.add(x)
                    ents2.append(x)
            out.append(f"* `harness/{name}` — package `{s['package'].split('/v10/')[-1]}`"
                       + ("; native replay in a `testing/synctest` bubble" if s.get("synctest") else "")
                       + f". Entries: {', '.join(ents2)}.")
            b = s.get("bounds")
            if isinstance(b, dict):
                for k, v in b.items():
                    out.append(f"  * bound — {esc(k)}: {esc(v)}")
            elif b:
                out.append(f"  * bounds: {esc(b)}")
            for a in s.get("assumptions") or []:
                out.append(f"  * assumed/stubbed: {esc(a)}")
            for a in s.get("outside_bounds") or []:
                out.append(f"  * outside the claim: {esc(a)}")
            m = s.get("models")
            if m:
                keys = list(m.keys()) if isinstance(m, dict) else list(m)
                out.append("  * callees replaced by a harness model in the symbolic run (the real callee runs in the native replay): "
                           + ", ".join("`" + k.replace("github.com/rqlite/rqlite/v10/", "") + "`" for k in keys))
        out.append("")
    return "\n".join(out)


def findings():
    kf = json.load(open(f"{V}/known_findings.json"))["findings"]
    out = ["| finding | status | /repo commit | what fails |", "|---|---|---|---|"]
    for f in sorted(kf, key=lambda f: (f["property"], f["status"], f["id"])):
        out.append(f"| {f['id']} | {f['status']} | {f.get('commit') or ''} | {short(f['what'], 330)} |")
    n_fixed = sum(1 for f in kf if f["status"] == "fixed")
    out.append("")
    out.append(f"{n_fixed} fixed, {len(kf) - n_fixed} open.")
    return "\n".join(out)


def seeds():
    from collections import Counter
    cnt = Counter(json.load(open(d + "meta.json")).get("outcome", "?") for d in glob.glob(f"{V}/seeded/*/"))
    out = ["Outcome when the seed was received / after the reaction to it (field `outcome` of meta.json): "
           + ", ".join(f"{k}: {v}" for k, v in sorted(cnt.items())) + f" (total {sum(cnt.values())}).", "",
           "| seed | change (summary) | needs | caught by |", "|---|---|---|---|"]
    for d in sorted(glob.glob(f"{V}/seeded/*/")):
        m = json.load(open(d + "meta.json"))
        db = m.get("detected_by") or {}
        out.append(f"| {os.path.basename(d.rstrip('/'))} | {short(m.get('summary', ''), 260)} | {short(m.get('needs', ''), 200)} | "
                   f"`{esc(db.get('check', '?'))}` — {short(db.get('result', ''), 300)} |")
    return "\n".join(out)


GEN = {"per-property": per_property, "findings": findings, "seeds": seeds}


def main():
    p = f"{V}/DESIGN.md"
    txt = open(p).read()
    for k, fn in GEN.items():
        pat = re.compile(r"(<!-- GEN:" + re.escape(k) + r" -->\n).*?(<!-- /GEN:" + re.escape(k) + r" -->)", re.S)
        if not pat.search(txt):
            print("marker missing:", k, file=sys.stderr)
            continue
        body = fn()
        txt = pat.sub(lambda m: m.group(1) + body + "\n" + m.group(2), txt)
    open(p, "w").write(txt)
    # line-oriented rendering of known_findings.json (same content, the form the task brief names)
    kf = json.load(open(f"{V}/known_findings.json"))["findings"]
    lines = ["# generated from known_findings.json by tools/gen_design_tables.py; the checks read the JSON file"]
    for f in sorted(kf, key=lambda f: (f["property"], f["id"])):
        if f["status"] == "fixed":
            lines.append(f"fixed: property={f['property']} {f.get('commit', '')} {esc(f['what'])} [{f['id']}]")
        else:
            lines.append(f"known-finding: property={f['property']} {esc(f['what'])} [{f['id']}]")
    open(f"{V}/known_findings.txt", "w").write("\n".join(lines) + "\n")


if __name__ == "__main__":
    main()
