#!/usr/bin/env python3
"""Regenerates /verif/MANIFEST.json from tools/claims.json (claimed checks) and properties.jsonl."""
import json, os
here = os.path.dirname(os.path.abspath(__file__)); root = os.path.dirname(here)
props = [json.loads(l) for l in open(os.path.join(root, 'properties.jsonl'))]
claims = json.load(open(os.path.join(here, 'claims.json')))
checks = []
for pid in sorted(claims['claimed']):
    c = claims['claimed'][pid]
    checks.append({
        "property_id": pid,
        "quick_cmd": "./check %s quick" % pid,
        "thorough_cmd": "./check %s thorough" % pid,
        "evidence_file": "evidence/%s.json" % pid,
        "replay_cmd_template": "./check replay {path}",
        "engine": "symgo",
        "level_claimed": {"category": c.get("category", "model_checking"), "text": c["text"], "design_ref": c.get("design_ref", "DESIGN.md section 6 " + pid)},
        "level_note": c["note"],
        "technique": c.get("technique", "bounded symbolic execution of the go/ssa form of the real functions; SMT (z3, bit-vectors/strings) decides every branch and assertion; solver models replayed natively with go test -overlay"),
    })
na = []
for p in props:
    if p['id'] in claims['claimed']:
        continue
    na.append({"property_id": p['id'], "reason": claims['not_applicable'].get(p['id'], "check not built yet in this session (see DESIGN.md section 8 build order); nothing is claimed")})
m = {
 "version": 1,
 "setup_cmd": "./setup.sh",
 "hooks": {"guard": "verif", "enable": "no hooks: harnesses are injected as go/packages overlays (symbolic run) and go test -overlay files (native replay); nothing is written into /repo",
           "baseline_off_cmd": "cd /repo && export GOFLAGS=-mod=mod GOPROXY=off GOSUMDB=off GOTOOLCHAIN=local PATH=/opt/veriftools/go1.26.8/bin:$PATH && go test -json -vet=off -count=1 -timeout 25m ./...",
           "source_commits": [], "add_only": True},
 "engines": [{"name": "symgo", "path": "engine", "serves_properties": sorted(claims['claimed']),
              "kind_free_text": "symbolic executor for go/ssa built from /repo's working tree on every run; path conditions and assertions are decided by z3/cvc5 over SMT-LIB2 (bit-vectors, strings); goroutines, channels, timers and a model clock are part of the executor; solver models are replayed natively (go test -overlay, testing/synctest)"}],
 "checks": checks,
 "notes": "See DESIGN.md and HARNESS_GUIDE.md. Exit 0 = every obligation discharged within the stated bounds; exit 1 + VIOLATION line = natively reproduced counterexample; exit 2 = inconclusive (never reported as success).",
 "not_applicable": na,
}
json.dump(m, open(os.path.join(root, 'MANIFEST.json'), 'w'), indent=1)
print("claimed:", len(checks), "not claimed:", len(na))
