#!/bin/bash
set -e
cd /verif/engine
export GOFLAGS=-mod=mod GOPROXY=off GOSUMDB=off GOTOOLCHAIN=local PATH=/opt/veriftools/go1.26.8/bin:$PATH
go build -o ../bin/symgo ./cmd/symgo
